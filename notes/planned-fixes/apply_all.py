def sub(path, old, new):
    s=open(path).read()
    assert s.count(old)==1, (path, s.count(old), old[:50])
    s=s.replace(old,new)
    open(path,'w').write(s)
DQ = 'br#""""#'

# F1
sub('scpi/src/tree/mod.rs', '''                // Empty input
                None => break Ok(()),''', '''                // Empty input or trailing unit separator
                None => {
                    if !response.is_empty() {
                        response.message_end()?;
                    }
                    break Ok(());
                }''')
# F3
sub('scpi/src/parser/parameters.rs', '''            Token::ArbitraryBlockData(s) => Ok(format::Expression(s)),''', '''            Token::ExpressionProgramData(s) => Ok(format::Expression(s)),''')
# F2
sub('scpi/src/parser/parameters.rs', '''                                let value = lexical_core::parse::<$intermediate>(value)?;

                                if !value.is_normal() {
                                    Err(lexical_core::Error::Overflow(0).into())
                                } else if value > (<$from>::MAX as $intermediate) {
                                    Err(lexical_core::Error::Overflow(0).into())
                                } else if value < (<$from>::MIN as $intermediate) {
                                    Err(lexical_core::Error::Underflow(0).into())
                                } else {
                                    // <f32|f64>::round() doesn't exist in no_std...
                                    // Safe because value is checked to be normal and within bounds earlier
                                    if value.is_sign_positive() {
                                        Ok(unsafe { (value + 0.5).to_int_unchecked() })
                                    } else {
                                        Ok(unsafe { (value - 0.5).to_int_unchecked() })
                                    }
                                }''', '''                                let value = lexical_core::parse::<$intermediate>(value)?;

                                // Values this large have no fractional part left to round
                                const INTEGRAL: $intermediate =
                                    (1u64 << (<$intermediate>::MANTISSA_DIGITS - 1)) as $intermediate;
                                // First value above the range, exactly representable unlike MAX
                                const UPPER: $intermediate =
                                    ((<$from>::MAX / 2 + 1) as $intermediate) * 2.0;
                                const LOWER: $intermediate = <$from>::MIN as $intermediate;

                                // <f32|f64>::round() doesn't exist in no_std...
                                let rounded = if value >= INTEGRAL || value <= -INTEGRAL {
                                    value
                                } else if value.is_sign_positive() {
                                    value + 0.5
                                } else {
                                    value - 0.5
                                };

                                if rounded.is_nan() || rounded >= UPPER {
                                    Err(lexical_core::Error::Overflow(0).into())
                                } else if rounded - LOWER <= -1.0 {
                                    Err(lexical_core::Error::Underflow(0).into())
                                } else {
                                    // Truncates towards zero, in range as checked above
                                    Ok(rounded as $from)
                                }''')
# F4
p='scpi/src/parser/expression/channel_list.rs'
sub(p,'''            let i1: isize = value
                .into_iter()
                .next()
                .unwrap_or(Err(ErrorCode::ExpressionError))?;
            let i2: isize = value
                .into_iter()
                .next()
                .unwrap_or(Err(ErrorCode::ExpressionError))?;
            Ok((i1, i2))''','''            let mut dims = value.into_iter();
            let i1: isize = dims.next().unwrap_or(Err(ErrorCode::ExpressionError))?;
            let i2: isize = dims.next().unwrap_or(Err(ErrorCode::ExpressionError))?;
            Ok((i1, i2))''')
sub(p,'''            let i1: isize = value
                .into_iter()
                .next()
                .unwrap_or(Err(ErrorCode::ExpressionError))?;
            let i2: isize = value
                .into_iter()
                .next()
                .unwrap_or(Err(ErrorCode::ExpressionError))?;
            let i3: isize = value
                .into_iter()
                .next()
                .unwrap_or(Err(ErrorCode::ExpressionError))?;
            Ok((i1, i2, i3))''','''            let mut dims = value.into_iter();
            let i1: isize = dims.next().unwrap_or(Err(ErrorCode::ExpressionError))?;
            let i2: isize = dims.next().unwrap_or(Err(ErrorCode::ExpressionError))?;
            let i3: isize = dims.next().unwrap_or(Err(ErrorCode::ExpressionError))?;
            Ok((i1, i2, i3))''')
# F4b
sub(p,'''            lexical_core::parse_partial(self.chars.as_slice())
                .map(|(n, len)| {
                    self.chars.nth(len - 1).unwrap();
                    n
                })
                .map_err(|_| ErrorCode::ExpressionError)''','''            match lexical_core::parse_partial(self.chars.as_slice()) {
                // Nothing was consumed, there is no number here
                Ok((_, 0)) | Err(_) => Err(ErrorCode::ExpressionError),
                Ok((n, len)) => {
                    self.chars.nth(len - 1).unwrap();
                    Ok(n)
                }
            }''')
# F5
sub('scpi/src/parser/expression/numeric_list.rs', '''            x if x.is_ascii_digit() || *x == b'-' || *x == b'+' && self.first => {''', '''            x if (x.is_ascii_digit() || *x == b'-' || *x == b'+' || *x == b'.') && self.first => {''')
# F6
sub('scpi/src/parser/response/mod.rs', '''        let mnemonic = self.mnemonic();
        let short_form = mnemonic.split(|c| !c.is_ascii_uppercase()).next().unwrap();
        formatter.push_str(short_form)''', '''        let mnemonic = self.mnemonic();
        let short_form = self.short_form();
        formatter.push_str(short_form)?;
        // A numeric suffix after the lowercase tail is not part of the short form but selects the variant
        let suffix = mnemonic.iter().rev().take_while(|c| c.is_ascii_digit()).count();
        if short_form.len() + suffix <= mnemonic.len() {
            formatter.push_str(&mnemonic[mnemonic.len() - suffix..])
        } else {
            Ok(())
        }''')
# F7
sub('scpi/src/parser/response/mod.rs', '''            formatter.push_byte(b'"')?;
            formatter.push_str(self.get_message())?;
            formatter.push_byte(b';')?;
            formatter.push_str(ext)?;
            formatter.push_byte(b'"')''', '''            formatter.push_byte(b'"')?;
            for (i, part) in self.get_message().split(|x| *x == b'"').enumerate() {
                if i > 0 {
                    formatter.push_str(DQ)?;
                }
                formatter.push_str(part)?;
            }
            formatter.push_byte(b';')?;
            for (i, part) in ext.split(|x| *x == b'"').enumerate() {
                if i > 0 {
                    formatter.push_str(DQ)?;
                }
                formatter.push_str(part)?;
            }
            formatter.push_byte(b'"')'''.replace('DQ', DQ))
# F13
sub('scpi/src/parser/response/mod.rs', '''                } else {
                    let mut buf = [b'0'; <$typ>::FORMATTED_SIZE_DECIMAL];
                    let slc = lexical_core::write::<$typ>(*self, &mut buf);
                    formatter.push_str(slc)
                }''', '''                } else {
                    let mut buf = [b'0'; <$typ>::FORMATTED_SIZE_DECIMAL];
                    let slc = lexical_core::write::<$typ>(*self, &mut buf);
                    // Negative zero is written without its sign
                    if *self == 0.0 && self.is_sign_negative() {
                        formatter.push_byte(b'-')?;
                    }
                    formatter.push_str(slc)
                }''')
# F9
sub('scpi-contrib/src/scpi1999/mod.rs', '''        self.get_register_mut::<Questionable>().clear_event();
        Ok(())''', '''        self.get_register_mut::<Questionable>().clear_event();
        // Clear error/event queue
        self.clear_errors();
        Ok(())''')
# F11
sub('scpi-contrib/src/scpi1999/mod.rs', '''        self.enable = 0u16;
        self.condition = 0u16;
''', '''        self.enable = 0u16;
''')
# F10
sub('scpi-contrib/src/ieee488/common.rs', '''        if context.mav {
            stb |= StatusBit::Mav.mask();
        }''', '''        if context.mav {
            stb |= StatusBit::Mav.mask();
            // MAV is summarized in MSS like every other status bit
            if device.sre() & StatusBit::Mav.mask() != 0 {
                stb |= StatusBit::RqsMss.mask();
            }
        }''')
# F12
sub('scpi/src/parser/suffix.rs', '''        electronvolt, joule, kilojoule, megajoule, megawatt_hour, microjoule, milliwatt_hour,
        watt_hour, Energy,''', '''        electronvolt, joule, kilojoule, megajoule, megawatt_hour, microjoule, millijoule,
        milliwatt_hour, watt_hour, Energy,''')
sub('scpi/src/parser/suffix.rs', '''        b"MJ" => megajoule,''', '''        b"MJ" => millijoule,''')
# F14
sub('scpi/src/parser/tokenizer/mod.rs', '''    pub fn new(buf: &'a [u8]) -> Self {
        Tokenizer::from_byte_iter(buf.iter())
    }''', '''    pub fn new(buf: &'a [u8]) -> Self {
        let mut iter = buf.iter();
        // A program header may be preceded by whitespace
        util::skip_ws(&mut iter);
        Tokenizer::from_byte_iter(iter)
    }''')
# F15
sub('scpi/src/parser/tokenizer/mod.rs', '''            common = false;
            self.chars.next();
            len += 1;''', '''            // The '*' of a common command is not part of the mnemonic
            if !common {
                len += 1;
            }
            common = false;
            self.chars.next();''')
# F16
sub('scpi/src/parser/tokenizer/mod.rs', '''    in_header: bool,
    in_common: bool,
}

impl<'a> Tokenizer<'a> {''', '''    in_header: bool,
    in_common: bool,
    after_data: bool,
}

impl<'a> Tokenizer<'a> {''')
sub('scpi/src/parser/tokenizer/mod.rs', '''            in_header: true,
            in_common: false,
        }''', '''            in_header: true,
            in_common: false,
            after_data: false,
        }''')
sub('scpi/src/parser/tokenizer/mod.rs', '''                if self.in_header {
                    Some(Err(ErrorCode::HeaderSeparatorError))
                } else {
                    util::skip_ws(&mut self.chars);''', '''                if self.in_header {
                    Some(Err(ErrorCode::HeaderSeparatorError))
                } else if !self.after_data {
                    // A data separator must follow a data element
                    Some(Err(ErrorCode::SyntaxError))
                } else {
                    util::skip_ws(&mut self.chars);''')
sub('scpi/src/parser/tokenizer/mod.rs', '''        //extern crate std;
        //std::dbg!(ret);
        ret''', '''        //extern crate std;
        //std::dbg!(ret);
        self.after_data = matches!(&ret, Some(Ok(tok)) if tok.is_data());
        ret''')
