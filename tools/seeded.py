#!/usr/bin/env python3
"""Evaluate a seeded change produced by a sub-agent (files in /tmp/seed/out/<name>/):
   seeded.py eval <name> <property> [extra checks...]
 1. confirm in a scratch worktree (/tmp/seedverify): patch applies, workspace tests pass with it,
    the demo fails with it and passes without it;
 2. apply the patch to /repo, run the quick check(s), restore /repo;
 3. store patch, demo, notes and meta.json under /verif/seeded/<name>/.
"""
import subprocess, sys, os, json, shutil, re, time
REPO = os.environ.get("SEEDED_REPO", "/repo")          # tree the patch is applied to for the detection step
VERIF = os.environ.get("SEEDED_VERIF", "/verif")       # machinery whose ./check is run (a scratch copy must depend on SEEDED_REPO)
VW = "/tmp/seedverify"

def sh(cmd, cwd=None, timeout=3600):
    r = subprocess.run(cmd, shell=True, cwd=cwd, capture_output=True, text=True, timeout=timeout)
    return r.returncode, r.stdout + r.stderr

def ensure_worktree():
    if not os.path.isdir(VW):
        rc, out = sh(f"git -C {REPO} worktree add --detach {VW} HEAD")
        assert rc == 0, out
    sh("git checkout -q --detach && git reset -q --hard && git clean -qfd -e target", cwd=VW)
    head = sh(f"git -C {REPO} rev-parse HEAD")[1].strip()
    sh(f"git checkout -q --detach {head}", cwd=VW)

def tests_pass(cwd):
    rc, out = sh("cargo test --workspace --no-fail-fast --offline 2>&1 | grep -E '^test result|FAILED|^error'", cwd=cwd)
    lines = out.strip().splitlines()
    bad = [l for l in lines if "FAILED" in l or l.startswith("error") or ("test result" in l and " 0 failed" not in l)]
    return (len(lines) > 5 and not bad), lines[-3:] + bad[:3]

def run_demo(cwd, crate, features):
    feat = f"--features {features}" if features else ""
    # scpi-contrib's tests rely on workspace feature unification (alloc): run from the root without -p
    sel = f"-p {crate}" if crate == "scpi" else ""
    rc, out = sh(f"cargo test --offline {sel} {feat} --test demo 2>&1 | tail -30", cwd=cwd)
    ok = "test result: ok" in out and "FAILED" not in out and not re.search(r"^error(\[|:)", out, re.M)
    return ok, out[-1500:]

def main():
    name, prop = sys.argv[2], sys.argv[3]
    checks = [prop] + sys.argv[4:]
    src = f"/tmp/seed/out/{name}"
    if not os.path.isdir(src):
        src = f"/verif/seeded/{name}"
    patch = os.path.join(src, "patch.diff")
    demo = os.path.join(src, "demo.rs")
    notes = open(os.path.join(src, "notes.md")).read() if os.path.exists(os.path.join(src, "notes.md")) else ""
    crate_dir = "scpi-contrib" if re.search(r"scpi-contrib/tests", notes) and not re.search(r"`?scpi/tests/?`?", notes.split("scpi-contrib/tests")[0][-200:]) else "scpi"
    if "scpi-contrib/tests" in notes and "scpi/tests" not in notes:
        crate_dir = "scpi-contrib"
    crate = "scpi-contrib" if crate_dir == "scpi-contrib" else "scpi"
    features = "arrayvec" if ("arrayvec" in open(demo).read().lower() and crate == "scpi") else ""
    # a demo that needs a cargo feature of the crate says so in its notes (`--features compact`)
    m = re.search(r"--features[ =]([A-Za-z0-9_,/-]+)", notes)
    if m and crate == "scpi":
        extra = [f.split("/")[-1] for f in m.group(1).split(",") if f]
        features = ",".join(sorted(set(([features] if features else []) + extra)))
    if os.environ.get("SEEDED_DEMO_FEATURES"):
        features = os.environ["SEEDED_DEMO_FEATURES"]
    meta = {"name": name, "property": prop, "demo_location": f"{crate_dir}/tests/demo.rs", "demo_features": features}
    # --- 1. confirm
    ensure_worktree()
    rc, out = sh(f"git apply --check {patch}", cwd=VW)
    meta["patch_applies"] = rc == 0
    if rc != 0:
        print("patch does not apply:", out); print(json.dumps(meta, indent=1)); return
    sh(f"git apply {patch}", cwd=VW)
    ok, info = tests_pass(VW)
    meta["suite_passes_with_patch"] = ok
    meta["suite_info"] = info
    shutil.copy(demo, f"{VW}/{crate_dir}/tests/demo.rs")
    d_ok, d_out = run_demo(VW, crate, features)
    meta["demo_fails_with_patch"] = not d_ok
    sh(f"git apply -R {patch}", cwd=VW)
    d2_ok, d2_out = run_demo(VW, crate, features)
    meta["demo_passes_without_patch"] = d2_ok
    if not d2_ok:
        meta["demo_without_patch_output"] = d2_out[-600:]
    os.remove(f"{VW}/{crate_dir}/tests/demo.rs")
    confirmed = meta["suite_passes_with_patch"] and meta["demo_fails_with_patch"] and meta["demo_passes_without_patch"]
    meta["confirmed"] = confirmed
    # --- 2. detect
    meta["detection"] = {}
    if confirmed:
        st = sh(f"git -C {REPO} status --porcelain")[1].strip()
        assert st == "", "/repo is not clean: " + st
        rc, out = sh(f"git -C {REPO} apply {patch}")
        assert rc == 0, out
        try:
            for c in checks:
                t = time.time()
                r = subprocess.run([VERIF + "/check", c, "quick"], capture_output=True, text=True, env=dict(os.environ, VERIF_EVIDENCE_SUFFIX=".seeded"))
                lines = [l for l in r.stdout.splitlines() if l.startswith(("VIOLATION", "  campaign", "INCONCLUSIVE"))]
                meta["detection"][c] = {"exit": r.returncode, "seconds": round(time.time() - t), "report": [l[:400] for l in lines[:3]]}
        finally:
            sh(f"git -C {REPO} checkout -- .")
            for c in checks:
                try: os.remove(f"{VERIF}/evidence/{c}.seeded.json")
                except FileNotFoundError: pass
        meta["detected_by"] = [c for c, v in meta["detection"].items() if v["exit"] == 1]
    # --- 3. store
    dst = f"/verif/seeded/{name}"
    os.makedirs(dst, exist_ok=True)
    for f in ["patch.diff", "demo.rs", "notes.md"]:
        if os.path.exists(os.path.join(src, f)) and src != dst:
            shutil.copy(os.path.join(src, f), os.path.join(dst, f))
    meta["ran"] = ["scratch worktree: git apply patch.diff; cargo test --workspace --no-fail-fast --offline; cargo test --offline -p %s %s --test demo (with and without the patch)" % (crate, ("--features " + features) if features else ""),
                   "then: git -C /repo apply patch.diff; ./check <id> quick; git -C /repo checkout -- ."]
    json.dump(meta, open(os.path.join(dst, "meta.json"), "w"), indent=1)
    print(json.dumps(meta, indent=1))

main()
