#!/usr/bin/env python3
"""Regenerate /verif/MANIFEST.json from the table below (keeps the 20 entries uniform)."""
import json, os, sys
ROOT = os.path.dirname(os.path.dirname(os.path.abspath(__file__)))

# id -> (category, technique, level text, level note, design ref)
P = {
 "C01": ("exploration", "property-based testing + bounded exhaustive enumeration + coverage-guided fuzzing (libFuzzer), invariant oracle, both build profiles",
         "Generated and mutated messages, raw bytes, every byte-prefix of generated messages, and ALL strings up to a bounded length over one representative byte per lexical class are executed against generated command trees with handlers that request every typed conversion and iterate list expressions; the oracle is the invariant 'returns, no panic, no internal-parser-error code, every iterator item consumes input'. Run on a build with debug assertions and overflow checks and on a release build. Thorough adds libFuzzer campaigns. Held-on-everything-explored, not absence.",
         "A true hang would surface as a timeout (exit 2), termination is witnessed as 'no more items than input bytes'. Trees and handler plans are those the generators produce (depth <= 4, <= 5 children).", "4/C01"),
 "C02": ("exploration", "property-based testing against a reference path-resolution model (model-based, histories of messages) + whole-message differential from bytes (488.2 recogniser + resolver as oracle) incl. bounded-exhaustive token strings per generated tree",
         "Generated command trees (default leaves/branches, anonymous default leaf, numeric-suffix siblings) x generated well-formed multi-unit messages with absolute/relative/common headers in short/long form and any case, plus headers built to designate no node, plus message histories; an independent SCPI-99 6.2 path resolver predicts which handler runs in which form or -113; recorder handlers observe what actually ran.",
         "Trees satisfy SCPI's own precondition that mnemonics visible from one level are pairwise non-matching. Reference resolver written from SCPI-99 6.2.", "4/C02"),
 "C03": ("exploration", "bounded exhaustive enumeration + property-based testing against an independent reference matcher (iff oracle)",
         "Every small-alphabet definition x every candidate string up to a bounded length is enumerated completely, and generated SCPI-shaped definitions up to 12 characters are paired with candidates derived from them (prefixes, extensions, case flips, suffix variants); mnemonic_match, mnemonic_compare and Token::match_program_header must agree with a reference matcher written from SCPI-99 6.2.1/6.2.5.2 in both directions.",
         "Leading-zero suffix spellings (01 vs 1) are not judged.", "4/C03"),
 "C04": ("exploration", "grammar-based property testing with by-construction expectations + single-point corruption + bounded exhaustive enumeration judged by an independent 488.2 recogniser + libFuzzer differential",
         "Messages generated from the 488.2 grammar keep their AST, so the expected element sequence and payload byte ranges are known without parsing; the Tokenizer output and the tokens handlers receive must equal it. Each listed corruption applied at one point must yield a command error (-100..-199) after exactly the expected prefix. All strings up to a bounded length over a 19-symbol class alphabet are judged by a hand-written three-valued recogniser.",
         "Exotic 488.2 white space, empty message units, suffixes glued to an exponent-like E and '#' inside expressions are not generated (DESIGN 3.1). One known finding (white space around the exponent marker) is confined to its own sub-campaign.", "4/C04"),
 "C05": ("fault_enumeration", "fault enumeration over generated messages: every unit position x every failure kind x every buffer capacity, recorder handlers as oracle; whole-message differential from bytes (bounded-exhaustive byte and token strings, mutated messages, libFuzzer) with the 488.2 recogniser + resolver as oracle",
         "For each generated base message every position and every failure kind (handler error, arity, type/range, undefined header, lexical corruption, response-buffer exhaustion at every capacity) is enumerated; the call log, the return value and the error-hook log must equal the prediction known by construction.",
         "Formatter failure is injected through ArrayVec capacities (a foreign Formatter cannot be implemented, DESIGN 3.3).", "4/C05"),
 "C06": ("exploration", "property-based testing with by-construction expectations (offered tokens vs AST, arity outcomes) + bounded-exhaustive token strings x required-pull counts judged from bytes",
         "Units with 0..5 data elements of all seven kinds at every unit position x handler plans pulling 0..6 required/optional parameters; offered tokens must be exactly the unit's own elements, the extra pull must be -109/None, leftovers must give -108 before the next unit runs.",
         "Messages come from the sound 488.2 grammar subset.", "4/C06"),
 "C07": ("exploration", "value-directed property-based testing + exhaustive grids for 8/16-bit targets, exact decimal arithmetic oracle",
         "Literals are built from values around every type bound, zero and half-integers in every NRf spelling, plus random literals and non-decimal literals; an exact decimal-string oracle computes the admissible set of integers (tolerance = resolution of the intermediate float the property names); result must be in the set or -222 exactly as the set lies inside/outside the type.",
         "Tolerance as stated in the property quantifier (double for 32/64-bit and pointer-sized, single for 8/16-bit).", "4/C07"),
 "C08": ("exploration", "property-based testing against Rust std's correctly rounded float parser (differential), halfway-case generation, full accept matrix",
         "Random, 17+ digit and exact-halfway decimal literals for f32 and f64 must convert bit-identically to str::parse; keywords to the named specials; booleans by exact rounding; every (target type, element kind) cell of the accept matrix must behave as documented.",
         "Rust std float parsing is the trusted reference. A boolean of magnitude beyond isize may be true or -222.", "4/C08"),
 "C09": ("exploration", "round-trip property testing (independent decoder and library parser), exhaustive for 8/16-bit integers and (thorough) all 2^32 f32 bit patterns",
         "Every formattable type: emitted bytes must satisfy an independent syntax recogniser of the element kind, decode with an independent decoder to the original value, and parse back through the library's own Tokenizer + TryFrom to the original.",
         "Lower-case exponent marker without sign is accepted as well-formed (pinned tests fix that text). The >9-digit block length refusal is not exercised.", "4/C09"),
 "C10": ("exploration", "property-based testing with an independently assembled expected buffer (by construction)",
         "Successful messages with any interleaving of events and queries, 1..5 data per query, 0..2 response headers, all seven message endings; the buffer must be byte-equal to the expectation assembled from the plans, for Vec<u8> and ArrayVec<u8,CAP>.",
         "Data encodings inside the expectation use an independent encoder for the simple kinds.", "4/C10"),
 "C11": ("fault_enumeration", "differential testing growable vs fixed buffer at every capacity + counting global allocator",
         "Each generated message is run with ArrayVec<u8,CAP> for every CAP from 0 to beyond its response length and compared with the Vec<u8> run: identical bytes or -225, never beyond capacity, never a panic; a counting global allocator asserts zero allocations during Node::run with allocation-free handlers.",
         "Capacities up to 192; allocation claim covers the explored messages and conversions.", "4/C11"),
 "C12": ("exploration", "model-based (stateful) property testing against a VecDeque model + bounded-exhaustive short operation sequences",
         "Operation sequences on both queue implementations (Vec<Error>, ArrayVec<Error,N> for N in 1..=8) are run in lock-step with a FIFO model with the -350 overflow rule; every return value, the length after every step and the final drain are compared.",
         "Capacities 1..=8 stand for all capacities >= 1.", "4/C12"),
 "C13": ("exploration", "model-based property testing over message histories on the documented minimal device",
         "Histories of valid, invalid (every kind) and handler-failing messages mixed with SYST:ERR/ESR queries are executed on a device wired as examples/minimal_scpi.rs (unbounded and ArrayVec queue); responses and device fields are compared with a status model after every message.",
         "ESR class bits come from the C14 table, not from esr_mask.", "4/C13"),
 "C14": ("exploration", "exhaustive enumeration of all 65536 error numbers + labelled error stream from generated faulty messages + bounded-exhaustive enumeration of malformed channel lists (class of every error raised)",
         "All i16 values through esr_mask (custom and standard) and get_error are compared with a class table transcribed from the property; errors the library raises for faults of known kind must lie in the right class; every malformed channel list of up to 9-13 characters over list punctuation is iterated and converted, each error must be a command error.",
         "No independent list of all standard error numbers is asserted.", "4/C14"),
 "C15": ("exploration", "model-based property testing over histories with a per-bit latch model + bounded-exhaustive per-bit filter / toggle sequences",
         "Histories of condition updates, filter/enable writes, queries, *CLS and STATus:PRESet on both register sets; responses and EventRegister fields compared with a per-bit model after every step.",
         "Device-side updates use the public EventRegister API.", "4/C15"),
 "C16": ("exploration", "model-based property testing over histories of common commands with a 488.2 status model + exhaustive *ESE x *SRE x ESR-subset grid",
         "Histories over the full minimal device (common commands, status subsystem, failing messages, device events, MAV both ways); *STB? and every register compared with the model after every message.",
         "Summary bit follows the crate's documented condition&enable definition.", "4/C16"),
 "C17": ("exploration", "property-based testing with an executable specification of numeric_value resolution",
         "Keywords and near-misses, boundary and random values, NaN/inf, unit quantities x (min,max,default) configurations including min=max; parse and resolve results compared with the specification and the invariant min <= x <= max; every builder path, NumericValue::map and the arithmetic operators between parsing and resolving.",
         "Underlying numeric conversions are judged by the C07/C08 oracles.", "4/C17"),
 "C18": ("exploration", "property-based testing against an independently written SCPI suffix table + bounded-exhaustive enumeration of every letter string up to 6 (7) characters as a suffix of every quantity",
         "Every defined suffix of every quantity in random case x decimal literals, undefined and near-miss suffixes, Amplitude and Db wrappers; value compared with literal x factor + offset from a hand-written table within 8 ulp; every 7-bit byte substituted at / inserted before every position of every defined suffix.",
         "ANN uses uom's 365-day year; bare temperature is degrees Celsius as the crate declares.", "4/C18"),
 "C19": ("exploration", "grammar-based property testing with by-construction expectations + corruption operators + bounded exhaustive enumeration judged by a list recogniser",
         "List ASTs render to text with expected entries; iteration and all conversions must yield exactly those; each listed corruption must give an error after the expected prefix; all strings up to a bounded length over a 14-symbol alphabet are judged by a reference recogniser.",
         "Lenient acceptances not listed by the property (trailing comma, path glued to spec) are not judged.", "4/C19"),
 "C20": ("exploration", "property-based testing over a generated corpus of enum definitions (build script) with reference matcher and round trip",
         "A build script generates enum definitions with #[derive(ScpiEnum)]; for each, candidates derived from the variant mnemonics and random character data are converted and compared with the reference matcher; every variant is formatted and parsed back.",
         "Quantifies over the generated corpus (a few hundred enums), not all Rust enums.", "4/C20"),
}

IMPLEMENTED = sys.argv[1:] if len(sys.argv) > 1 else None
state_file = os.path.join(ROOT, "tools", "implemented.txt")
if IMPLEMENTED is None:
    IMPLEMENTED = open(state_file).read().split()
else:
    open(state_file, "w").write("\n".join(sorted(IMPLEMENTED)) + "\n")

checks, na = [], []
for pid in sorted(P):
    cat, tech, text, note, ref = P[pid]
    if pid in IMPLEMENTED:
        checks.append({
            "property_id": pid,
            "quick_cmd": f"./check {pid} quick",
            "thorough_cmd": f"./check {pid} thorough",
            "evidence_file": f"/verif/evidence/{pid}.json",
            "replay_cmd_template": "./check --replay {path}",
            "engine": "vcheck",
            "level_claimed": {"category": cat, "text": text, "design_ref": f"DESIGN.md section {ref}"},
            "level_note": note,
            "technique": tech,
        })
    else:
        na.append({"property_id": pid, "reason": "check not built yet in this revision of /verif (work in progress; property-based design exists in DESIGN.md section " + ref + ")"})

m = {
    "version": 1,
    "setup_cmd": "cd /verif && ./check --setup",
    "hooks": {
        "guard": "--cfg scpi_rs_verif",
        "enable": "no source hooks are needed: every observation point is public API, so checks build /repo unmodified (path dependency of /verif/harness)",
        "baseline_off_cmd": "cd /repo && cargo test --workspace --no-fail-fast --offline",
        "source_commits": [],
        "add_only": True,
    },
    "engines": [{
        "name": "vcheck",
        "path": "/verif/harness",
        "serves_properties": sorted(IMPLEMENTED),
        "kind_free_text": "Rust binary driving proptest TestRunner (16 shards, ChaCha seeded from VERIF_SEED), bounded exhaustive enumerators, reference models, replay and evidence writer; cargo-fuzz (libFuzzer) targets under harness/fuzz reuse the same oracles",
    }],
    "checks": checks,
    "not_applicable": na,
    "notes": "All checks rebuild the harness against /repo's working tree (cargo path dependency) before running. Exit 2 = inconclusive/harness error. Known findings: /verif/known_findings.json. Every check runs the harness built against two cargo-feature configurations of the crates (default: alloc + arrayvec + std + all units; alt: no std, compact, scpi-contrib/unproven; side evidence <id>.alt.json); C01 additionally in a build with debug assertions and overflow checks (<id>.checked.json); C03, C07, C08, C12, C19, C20 additionally in a third configuration without alloc and without unit features (<id>.min.json).",
}
json.dump(m, open(os.path.join(ROOT, "MANIFEST.json"), "w"), indent=1)
print("MANIFEST.json:", len(checks), "checks,", len(na), "not_applicable")
