#!/bin/sh
# Full sensitivity sweep inside a `vp run --with-repo` snapshot: every catalogued mutant is applied to
# the snapshot of /repo ($VP_RUN_REPO), the repository's own test-suite is run on it (it must still
# pass, otherwise the mutant is not a valid one) and then the expected killer checks.
#   vp run --with-repo --timeout 6h -- sh tools/sweep_in_snapshot.sh
set -eu
HERE=$(pwd)
: "${VP_RUN_REPO:?needs vp run --with-repo}"
sed -i "s#/repo/#$VP_RUN_REPO/#g" harness/Cargo.toml
export MUTANT_REPO="$VP_RUN_REPO" MUTANT_VERIF="$HERE" VERIF_ROOT="$HERE"
./check --setup
python3 tools/mutant.py sweep --baseline "$@"
cp mutants/last_sweep.json /verif/mutants/last_sweep.from-snapshot.json 2>/dev/null || true
