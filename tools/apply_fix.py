#!/usr/bin/env python3
"""Apply one prototyped repair (hunks tagged '# F<n>' in notes/planned-fixes/apply_all.py) to /repo's working tree."""
import re, sys, os
src = open('/verif/notes/planned-fixes/apply_all.py').read()
m = re.search(r'^# F', src, re.M)
header, body = src[:m.start()], src[m.start():]
parts = re.split(r'^(# F\w+)\s*$', body, flags=re.M)
sections = {}
for i in range(1, len(parts), 2):
    sections[parts[i][2:].strip()] = parts[i+1]
os.chdir('/repo')
for tag in sys.argv[1:]:
    exec(header + sections[tag])
    print("applied", tag)
