#!/usr/bin/env python3
"""Regenerate /verif/seeded/SUMMARY.md from the meta.json files."""
import json, os, glob
rows = []
for d in sorted(glob.glob("/verif/seeded/*/meta.json")):
    m = json.load(open(d))
    name = m["name"]
    det = m.get("detected_by", [])
    rep = ""
    v = m.get("detection", {}).get(m["property"], {})
    if v.get("report"):
        rep = (v["report"][1] if len(v["report"]) > 1 else v["report"][0]).strip()[:150]
    note = m.get("superseded_note") or m.get("note") or ""
    extra = ""
    if not m.get("confirmed") or (not det and note):
        extra = " - " + (note[:260] + "..." if len(note) > 260 else note)
    if m.get("evaluated_after_strengthening"):
        extra += " (evaluated after the generators were widened" + (": " + m["strengthening_note"] if m.get("strengthening_note") else "") + ")"
    rows.append(f"| {name} | {m['property']} | {m.get('confirmed')} | {', '.join(det) or '-'} | `{rep}`{extra} |")
head = """# Seeded changes written by independent sub-agents

Each agent saw only one property's text and its own scratch worktree (rounds 3 and 4 additionally got a generic description of generator-based testing and were asked to evade it). `confirmed` = re-checked here: patch applies, the repository's suite passes with it, the agent's demo fails with it and passes without it. `detected by` = quick checks that exit 1 with the patch applied to /repo.

| id | property | confirmed | detected by | first report of the property's check |
|---|---|---|---|---|
"""
open("/verif/seeded/SUMMARY.md", "w").write(head + "\n".join(rows) + "\n")
print(len(rows), "rows")
