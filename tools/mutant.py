#!/usr/bin/env python3
"""Sensitivity runner: apply one catalogued mutant to /repo's working tree, run checks, restore.

usage: mutant.py run <name> [<Cxx> ...]      apply, run the listed (default: expected) quick checks, restore
       mutant.py sweep [--baseline] [names]  run every mutant against its expected killers; table on stdout
       mutant.py list
The catalogue is /verif/mutants/catalog.py: MUTANTS = [(name, file, old, new, [killers]), ...]
/repo is restored with `git checkout -- <file>` after every mutant, also on error.
"""
import subprocess, sys, os, time, json
sys.path.insert(0, os.path.join(os.environ.get("MUTANT_VERIF", "/verif"), "mutants"))
from catalog import MUTANTS
REPO = os.environ.get("MUTANT_REPO", "/repo")
VERIF = os.environ.get("MUTANT_VERIF", "/verif")

def find_commit(subject):
    log = subprocess.run(["git", "-C", REPO, "log", "--format=%h %s"], capture_output=True, text=True).stdout.splitlines()
    return next(l.split()[0] for l in log if subject in l)

def apply(m):
    name, path, old, new, _ = m
    if path == "@revert":
        # natural mutant: take one "fix:" commit back out of the working tree
        h = find_commit(old)
        diff = subprocess.run(["git", "-C", REPO, "show", h], capture_output=True, text=True).stdout
        subprocess.run(["git", "-C", REPO, "apply", "-R"], input=diff, text=True, check=True)
        return
    p = os.path.join(REPO, path)
    s = open(p).read()
    if s.count(old) != 1:
        raise SystemExit(f"{name}: pattern occurs {s.count(old)} times in {path}")
    open(p, "w").write(s.replace(old, new))

def restore(m):
    subprocess.run(["git", "-C", REPO, "checkout", "--", "." if m[1] == "@revert" else m[1]], check=True)

def run_check(pid):
    t = time.time()
    r = subprocess.run([os.path.join(VERIF, "check"), pid, "quick"], capture_output=True, text=True, env=dict(os.environ, VERIF_EVIDENCE_SUFFIX=".mutant"))
    lines = [l for l in r.stdout.splitlines() if l.startswith(("VIOLATION", "  campaign", "INCONCLUSIVE", "KNOWN"))]
    return r.returncode, time.time() - t, lines, r.stderr[-400:]

def baseline():
    r = subprocess.run(f"cd {REPO} && cargo test --workspace --no-fail-fast --offline 2>&1 | grep -E '^test result|FAILED|failed' ", shell=True, capture_output=True, text=True)
    bad = [l for l in r.stdout.splitlines() if "FAILED" in l or ("failed" in l and " 0 failed" not in l)]
    return (not bad), bad[:5]

def main():
    if len(sys.argv) < 2 or sys.argv[1] == "list":
        for m in MUTANTS: print(m[0], m[1], m[4])
        return
    cmd = sys.argv[1]
    args = sys.argv[2:]
    do_base = "--baseline" in args
    args = [a for a in args if a != "--baseline"]
    if cmd == "run":
        name = args[0]
        m = next(x for x in MUTANTS if x[0] == name)
        pids = args[1:] or m[4]
        apply(m)
        try:
            if do_base: print("baseline passes:", baseline())
            for pid in pids:
                rc, dt, lines, err = run_check(pid)
                print(f"{name} {pid} exit={rc} {dt:.0f}s")
                for l in lines[:6]: print("   ", l[:300])
                if rc == 2: print("   stderr:", err)
        finally:
            restore(m)
            subprocess.run(["rm", "-f"] + [f"{VERIF}/evidence/{p}.mutant.json" for p in pids])
    elif cmd == "sweep":
        sel = [m for m in MUTANTS if not args or m[0] in args]
        results = []
        for m in sel:
            try:
                apply(m)
            except (SystemExit, subprocess.CalledProcessError) as e:
                print("SKIP", m[0], e, flush=True)
                subprocess.run(["git", "-C", REPO, "checkout", "--", "."])
                continue
            try:
                base = baseline() if do_base else (None, [])
                row = {"mutant": m[0], "baseline_passes": base[0], "checks": {}}
                for pid in m[4]:
                    rc, dt, lines, err = run_check(pid)
                    row["checks"][pid] = {"exit": rc, "s": round(dt), "first": (lines[1] if len(lines) > 1 else (lines[0] if lines else err[-200:]))[:200]}
                killed = any(v["exit"] == 1 for v in row["checks"].values())
                row["killed"] = killed
                results.append(row)
                print(("KILLED " if killed else "SURVIVED ") + json.dumps(row), flush=True)
            finally:
                restore(m)
        json.dump(results, open(os.path.join(VERIF, "mutants", "last_sweep.json"), "w"), indent=1)
        subprocess.run(["rm", "-f"] + [f"{VERIF}/evidence/{p}.mutant.json" for p in [f"C{i:02d}" for i in range(1, 21)]])

main()
