//! Generates the corpus of `#[derive(ScpiEnum)]` definitions that C20 quantifies
//! over (a proc-macro's inputs can only be varied at build time). Deterministic:
//! seeded by VERIF_ENUM_SEED (default 20240901); four corpora of 120 enums.
use std::fmt::Write as _;
use std::path::PathBuf;

#[path = "src/model/mnemonic.rs"]
#[allow(dead_code)]
mod mnemonic;

struct Rng(u64);
impl Rng {
    fn next(&mut self) -> u64 {
        self.0 = self.0.wrapping_add(0x9E3779B97F4A7C15);
        let mut z = self.0;
        z = (z ^ (z >> 30)).wrapping_mul(0xBF58476D1CE4E5B9);
        z = (z ^ (z >> 27)).wrapping_mul(0x94D049BB133111EB);
        z ^ (z >> 31)
    }
    fn below(&mut self, n: u64) -> u64 {
        self.next() % n
    }
    fn letters(&mut self, n: usize, upper: bool, alphabet: u64) -> String {
        (0..n).map(|_| ((if upper { b'A' } else { b'a' }) + self.below(alphabet) as u8) as char).collect()
    }
}

fn forms(def: &[u8]) -> Vec<Vec<u8>> {
    let (alpha, suffix) = mnemonic::split_suffix(def);
    let short = mnemonic::short_of(alpha);
    let suffixes: Vec<&[u8]> = if suffix.is_empty() || suffix == b"1" { vec![b"", b"1"] } else { vec![suffix] };
    let mut v = Vec::new();
    for a in [short, alpha] {
        for s in &suffixes {
            let mut f = a.to_vec();
            f.extend_from_slice(s);
            v.push(f);
        }
    }
    v
}

fn conflict(a: &[u8], b: &[u8]) -> bool {
    forms(b).iter().any(|f| mnemonic::matches(a, f) != mnemonic::Verdict::NoMatch) || forms(a).iter().any(|f| mnemonic::matches(b, f) != mnemonic::Verdict::NoMatch)
}

fn gen_mnemonic(rng: &mut Rng, existing: &[String]) -> String {
    // small alphabets make near-collisions (shared prefixes) likely
    let alphabet = [3u64, 5, 26][rng.below(3) as usize];
    match rng.below(12) {
        // sibling of an existing mnemonic differing only in the numeric suffix
        0 | 1 | 2 if !existing.is_empty() => {
            let base = &existing[rng.below(existing.len() as u64) as usize];
            let (alpha, _) = mnemonic::split_suffix(base.as_bytes());
            let n = [2u64, 3, 10, 12, 125, 11, 21, 101][rng.below(8) as usize];
            let s = n.to_string();
            let mut a = String::from_utf8(alpha.to_vec()).unwrap();
            a.truncate(12 - s.len());
            format!("{a}{s}")
        }
        // all caps followed by digits (L125)
        3 => {
            let n_upper = 1 + rng.below(3) as usize;
            let u = rng.letters(n_upper, true, alphabet);
            format!("{u}{}", [1u64, 2, 12, 125, 4096, 11, 31, 1001][rng.below(8) as usize])
        }
        // one character
        4 if rng.below(2) == 0 => rng.letters(1, true, 26),
        // an underscore (legal in 488.2 character data) inside the required part, at its end, or in the tail
        4 if rng.below(3) == 0 => {
            let na = 1 + rng.below(3) as usize;
            let a = rng.letters(na, true, alphabet);
            match rng.below(3) {
                0 => {
                    let nb = 1 + rng.below(3) as usize;
                    let b = rng.letters(nb, true, alphabet);
                    let nl = rng.below(3) as usize;
                    format!("{a}_{b}{}", rng.letters(nl, false, alphabet))
                }
                1 => {
                    let nl = 1 + rng.below(4) as usize;
                    format!("{a}_{}", rng.letters(nl, false, alphabet))
                }
                _ => {
                    let nl = 1 + rng.below(2) as usize;
                    let l = rng.letters(nl, false, alphabet);
                    let nm = 1 + rng.below(2) as usize;
                    format!("{a}{l}_{}", rng.letters(nm, false, alphabet))
                }
            }
        }
        // digits embedded in the required part (P6V, N25V, CH1A)
        4 => {
            let a = rng.letters(1, true, alphabet);
            let d = [6u64, 25, 1, 12][rng.below(4) as usize];
            let nb = 1 + rng.below(2) as usize;
            let b = rng.letters(nb, true, alphabet);
            let nl = rng.below(3) as usize;
            let l = rng.letters(nl, false, alphabet);
            let sfx = if rng.below(3) == 0 { (1 + rng.below(12)).to_string() } else { String::new() };
            format!("{a}{d}{b}{l}{sfx}")
        }
        // twelve characters
        5 => {
            let nu = 1 + rng.below(6) as usize;
            format!("{}{}", rng.letters(nu, true, alphabet), rng.letters(12 - nu, false, alphabet))
        }
        // same short form as an existing one but longer long form is a conflict; try a shared prefix instead
        6 if !existing.is_empty() => {
            let base = &existing[rng.below(existing.len() as u64) as usize];
            let (alpha, _) = mnemonic::split_suffix(base.as_bytes());
            let short = mnemonic::short_of(alpha);
            let mut s = String::from_utf8(short.to_vec()).unwrap();
            let extra = 1 + rng.below(2) as usize;
            s.push_str(&rng.letters(extra, true, alphabet));
            s.truncate(8);
            let nl = rng.below(4) as usize;
            format!("{s}{}", rng.letters(nl, false, alphabet))
        }
        _ => {
            let nu = 1 + rng.below(5) as usize;
            let nl = rng.below(6) as usize;
            let sfx = match rng.below(5) {
                0 => "1".to_string(),
                1 => (2 + rng.below(30)).to_string(),
                _ => String::new(),
            };
            format!("{}{}{}", rng.letters(nu, true, alphabet), rng.letters(nl, false, alphabet), sfx)
        }
    }
}

fn main() {
    println!("cargo:rerun-if-changed=build.rs");
    println!("cargo:rerun-if-changed=src/model/mnemonic.rs");
    println!("cargo:rerun-if-env-changed=VERIF_ENUM_SEED");
    let seed: u64 = std::env::var("VERIF_ENUM_SEED").ok().and_then(|s| s.parse().ok()).unwrap_or(20240901);
    let mut out = String::new();
    writeln!(out, "// generated by build.rs, seed {seed}").unwrap();
    writeln!(out, "pub const ENUM_SEED: u64 = {seed};").unwrap();
    let mut infos = String::new();
    let mut count = 0;
    for corpus in 0..4u64 {
        let mut rng = Rng(seed.wrapping_mul(1000).wrapping_add(corpus));
        for _ in 0..120 {
            let n_variants = 1 + rng.below(9) as usize;
            let mut mns: Vec<String> = Vec::new();
            let mut tries = 0;
            while mns.len() < n_variants && tries < 200 {
                tries += 1;
                let m = gen_mnemonic(&mut rng, &mns);
                if m.is_empty() || m.len() > 12 || !m.as_bytes()[0].is_ascii_uppercase() {
                    continue;
                }
                if mns.iter().any(|e| conflict(e.as_bytes(), m.as_bytes())) {
                    continue;
                }
                mns.push(m);
            }
            let name = format!("E{count}");
            // every fourth enum is field-less with explicit discriminants that are neither 0..N-1 nor in
            // declaration order (an enum that doubles as a register code)
            let explicit = count % 4 == 3;
            let fields: Vec<u8> = (0..mns.len()).map(|_| if explicit { rng.below(2) as u8 } else { rng.below(4) as u8 }).collect(); // 0,1 unit; 2 u8; 3 i32
            let repr = if explicit { "#[repr(u8)]\n" } else { "" };
            writeln!(out, "{repr}#[derive(Copy, Clone, PartialEq, Debug, scpi_derive::ScpiEnum)]\npub enum {name} {{").unwrap();
            for (i, m) in mns.iter().enumerate() {
                let f = match fields[i] {
                    2 => "(u8)",
                    3 => "(i32)",
                    _ => "",
                };
                let disc = if explicit { format!(" = {}", 200 - 3 * i) } else { String::new() };
                // where the scpi attribute stands among the variant's other attributes is up to the author
                let (before, after) = match rng.below(8) {
                    0 => ("    /// documented before\n", ""),
                    1 => ("", "    /// documented after the scpi attribute\n"),
                    2 => ("", "    #[allow(dead_code)]\n"),
                    3 => ("    #[allow(dead_code)]\n", "    #[doc = \"and after\"]\n"),
                    _ => ("", ""),
                };
                writeln!(out, "{before}    #[scpi(mnemonic = b\"{m}\")]\n{after}    V{i}{f}{disc},").unwrap();
            }
            writeln!(out, "}}").unwrap();
            // helpers
            writeln!(out, "fn {name}_variant(i: usize) -> {name} {{ match i {{").unwrap();
            for i in 0..mns.len() {
                let f = if fields[i] >= 2 { "(Default::default())" } else { "" };
                writeln!(out, "    {i} => {name}::V{i}{f},").unwrap();
            }
            writeln!(out, "    _ => unreachable!() }} }}").unwrap();
            writeln!(out, "fn {name}_index(v: &{name}) -> usize {{ match v {{").unwrap();
            for i in 0..mns.len() {
                let f = if fields[i] >= 2 { "(..)" } else { "" };
                writeln!(out, "    {name}::V{i}{f} => {i},").unwrap();
            }
            writeln!(out, "}} }}").unwrap();
            let table: Vec<String> = mns.iter().map(|m| format!("b\"{m}\"")).collect();
            writeln!(
                infos,
                "    EnumInfo {{ name: \"{name}\", corpus: {corpus}, mnemonics: &[{}], from_mnemonic: |s| <{name} as ScpiEnum>::from_mnemonic(s).map(|v| {name}_index(&v)), try_from: |t| {name}::try_from(t).map(|v| {name}_index(&v)), mnemonic: |i| {name}_variant(i).mnemonic(), short_form: |i| {name}_variant(i).short_form(), format: |i| fmt_enum(&{name}_variant(i)) }},",
                table.join(", ")
            )
            .unwrap();
            count += 1;
        }
    }
    writeln!(out, "pub static CORPUS: &[EnumInfo] = &[\n{infos}];").unwrap();
    let path = PathBuf::from(std::env::var("OUT_DIR").unwrap()).join("enum_corpus.rs");
    std::fs::write(path, out).unwrap();

    // const-generic dispatch over buffer capacities 0..=MAX_CAP (C05, C11)
    let mut d = String::new();
    writeln!(d, "pub const MAX_CAP: usize = 192;").unwrap();
    writeln!(d, "pub fn dispatch<V: CapVisitor>(cap: usize, v: &mut V) -> Option<V::Out> {{\n    Some(match cap {{").unwrap();
    for n in 0..=192 {
        writeln!(d, "        {n} => v.visit::<{n}>(),").unwrap();
    }
    writeln!(d, "        _ => return None,\n    }})\n}}").unwrap();
    let path = PathBuf::from(std::env::var("OUT_DIR").unwrap()).join("cap_dispatch.rs");
    std::fs::write(path, d).unwrap();
}
