fn main(){}
