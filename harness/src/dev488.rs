//! A device wired exactly as scpi-contrib/examples/minimal_scpi.rs (all the
//! mandated IEEE 488.2 / SCPI-99 commands, `handle_error -> push_error`), with
//! either an unbounded or a fixed-capacity error queue, plus two test leaves.
use crate::rec::ErrSpec;
use arrayvec::ArrayVec;
use scpi::error::{Error, ErrorQueue, Result};
use scpi::tree::prelude::*;
use scpi::{Context, Device, Root};
use scpi_contrib::ieee488::prelude::*;
use scpi_contrib::scpi1999::prelude::*;
use scpi_contrib::{ieee488_cls, ieee488_ese, ieee488_esr, ieee488_idn, ieee488_opc, ieee488_rst, ieee488_sre, ieee488_stb, ieee488_tst, ieee488_wai, scpi_status, scpi_system};
use std::collections::VecDeque;

pub const BOUNDED_CAP: usize = 3;

pub enum Queue {
    Unbounded(VecDeque<Error>),
    Bounded(ArrayVec<Error, BOUNDED_CAP>),
}

pub struct MinDev {
    pub esr: u8,
    pub ese: u8,
    pub sre: u8,
    pub operation: EventRegister,
    pub questionable: EventRegister,
    pub errors: Queue,
    /// scripted self-test result
    pub tst: Option<ErrSpec>,
    pub rst_calls: u32,
    /// a condition posted by "hardware" that the device samples whenever the status subsystem
    /// asks for mutable access to the register (the only hook the library offers for that)
    pub pending_oper: Option<u16>,
    pub pending_ques: Option<u16>,
    /// what each stored message executed by `TEST:MACRo` / `TEST:SMACro` ended with, in call order
    pub nested: ArrayVec<Option<Error>, 4>,
    /// see `push_error`
    pub own_push_error: bool,
}

impl MinDev {
    pub fn new(bounded: bool) -> Self {
        MinDev {
            esr: 0,
            ese: 0,
            sre: 0,
            operation: EventRegister::default(),
            questionable: EventRegister::default(),
            errors: if bounded { Queue::Bounded(ArrayVec::new()) } else { Queue::Unbounded(VecDeque::new()) },
            tst: None,
            rst_calls: 0,
            pending_oper: None,
            pending_ques: None,
            nested: ArrayVec::new(),
            own_push_error: false,
        }
    }
    pub fn queue_len(&self) -> usize {
        match &self.errors {
            Queue::Unbounded(q) => q.len(),
            Queue::Bounded(q) => q.len(),
        }
    }
    /// the last `n` items of the queue (all of it when shorter)
    pub fn queue_tail(&self, n: usize) -> Vec<Error> {
        match &self.errors {
            Queue::Unbounded(q) => q.iter().skip(q.len().saturating_sub(n)).copied().collect(),
            Queue::Bounded(q) => q.iter().skip(q.len().saturating_sub(n)).copied().collect(),
        }
    }
    pub fn queue_snapshot(&self) -> Vec<Error> {
        match &self.errors {
            Queue::Unbounded(q) => q.iter().copied().collect(),
            Queue::Bounded(q) => q.iter().copied().collect(),
        }
    }
}

impl Device for MinDev {
    fn handle_error(&mut self, err: Error) {
        self.push_error(err)
    }
}

impl IEEE4882 for MinDev {
    fn stb(&self) -> u8 {
        self.scpi_stb()
    }
    fn sre(&self) -> u8 {
        self.sre
    }
    fn set_sre(&mut self, value: u8) {
        self.sre = value
    }
    fn esr(&self) -> u8 {
        self.esr
    }
    fn set_esr(&mut self, value: u8) {
        self.esr = value
    }
    fn ese(&self) -> u8 {
        self.ese
    }
    fn set_ese(&mut self, value: u8) {
        self.ese = value
    }
    fn tst(&mut self) -> Result<()> {
        match &self.tst {
            Some(e) => Err(e.build()),
            None => Ok(()),
        }
    }
    fn rst(&mut self) -> Result<()> {
        self.rst_calls += 1;
        Ok(())
    }
    fn cls(&mut self) -> Result<()> {
        self.scpi_cls()
    }
    fn opc(&mut self) -> Result<()> {
        self.scpi_opc()
    }
}

impl GetEventRegister<Operation> for MinDev {
    fn register(&self) -> &EventRegister {
        &self.operation
    }
    fn register_mut(&mut self) -> &mut EventRegister {
        if let Some(c) = self.pending_oper.take() {
            self.operation.set_condition(c);
        }
        &mut self.operation
    }
}

impl GetEventRegister<Questionable> for MinDev {
    fn register(&self) -> &EventRegister {
        &self.questionable
    }
    fn register_mut(&mut self) -> &mut EventRegister {
        if let Some(c) = self.pending_ques.take() {
            self.questionable.set_condition(c);
        }
        &mut self.questionable
    }
}

impl ErrorQueue for MinDev {
    fn push_back_error(&mut self, err: Error) {
        match &mut self.errors {
            Queue::Unbounded(q) => q.push_back(err),
            Queue::Bounded(q) => q.push_back_error(err),
        }
    }
    fn pop_front_error(&mut self) -> Option<Error> {
        match &mut self.errors {
            Queue::Unbounded(q) => q.pop_front(),
            Queue::Bounded(q) => q.pop_front_error(),
        }
    }
    fn num_errors(&self) -> usize {
        match &self.errors {
            Queue::Unbounded(q) => q.len(),
            Queue::Bounded(q) => q.num_errors(),
        }
    }
    fn clear_errors(&mut self) {
        match &mut self.errors {
            Queue::Unbounded(q) => q.clear(),
            Queue::Bounded(q) => q.clear_errors(),
        }
    }
}

impl ScpiDevice for MinDev {
    /// A device may keep its own book of errors: with `own_push_error` this one overrides the provided
    /// `push_error` - same ESR / queue handling for the error classes, but the -800 "operation complete"
    /// event class is not the error hook's business on this device (`*OPC` is `scpi_opc()`'s own job).
    fn push_error(&mut self, err: Error) {
        if self.own_push_error && (-899..=-800).contains(&err.get_code()) {
            return;
        }
        let esr = self.esr() | err.esr_mask();
        self.set_esr(esr);
        self.push_back_error(err);
    }
}

/// `TEST:FAIL <code>,<custom>,<extended>`: the handler returns that error.
pub struct FailCommand;
impl Command<MinDev> for FailCommand {
    fn event(&self, _device: &mut MinDev, _context: &mut Context, mut params: Parameters) -> Result<()> {
        let code: i16 = params.next_data()?;
        let custom: bool = params.next_data()?;
        let extended: bool = params.next_data()?;
        Err(ErrSpec { code, custom, extended }.build())
    }
    fn query(&self, device: &mut MinDev, context: &mut Context, params: Parameters, _response: ResponseUnit) -> Result<()> {
        self.event(device, context, params)
    }
}

/// `TEST:MACRo "<message>"` / `TEST:SMACro "<message>"`: the handler executes a stored program
/// message through `Node::run` on the tree it is mounted in, with the device and the context it
/// was given (the way a `*TRG` / `*DDT` style command would) and a scratch response buffer.
/// The stored message reports its own failure through the device's error hook like any other
/// message. MACRo then succeeds regardless; SMACro fails with -272 Macro execution error.
pub struct MacroCommand {
    pub alt_tree: bool,
    pub strict: bool,
}
impl Command<MinDev> for MacroCommand {
    fn event(&self, device: &mut MinDev, context: &mut Context, mut params: Parameters) -> Result<()> {
        let text: &[u8] = params.next_data()?;
        let mut scratch: ArrayVec<u8, 16384> = ArrayVec::new();
        let tree = if self.alt_tree { &MIN_TREE_ALT } else { &MIN_TREE };
        let r = tree.run(text, device, context, &mut scratch);
        let _ = device.nested.try_push(r.err()); // (a fixed array: the device must not allocate, C11 counts)
        match (r, self.strict) {
            (Err(_), true) => Err(Error::new(ErrorCode::MacroExecutionError)),
            _ => Ok(()),
        }
    }
    fn query(&self, device: &mut MinDev, context: &mut Context, params: Parameters, _response: ResponseUnit) -> Result<()> {
        self.event(device, context, params)
    }
}

/// `TEST:U8 <u8>` / `TEST:U8? <u8>`: a typed parameter (type, range and arity faults).
pub struct U8Command;
impl Command<MinDev> for U8Command {
    fn event(&self, _device: &mut MinDev, _context: &mut Context, mut params: Parameters) -> Result<()> {
        let _v: u8 = params.next_data()?;
        Ok(())
    }
    fn query(&self, _device: &mut MinDev, _context: &mut Context, mut params: Parameters, mut response: ResponseUnit) -> Result<()> {
        let v: u8 = params.next_data()?;
        response.data(v).finish()
    }
}

pub const MIN_TREE: Node<'static, MinDev> = Root![
    ieee488_cls!(),
    ieee488_ese!(),
    ieee488_esr!(),
    ieee488_idn!(b"VERIF", b"T800", b"0", b"1"),
    ieee488_opc!(),
    ieee488_rst!(),
    ieee488_sre!(),
    ieee488_stb!(),
    ieee488_tst!(),
    ieee488_wai!(),
    scpi_status!(),
    scpi_system!(),
    Node::Branch { name: b"TEST", default: false, sub: &[Node::Leaf { name: b"FAIL", default: false, handler: &FailCommand }, Node::Leaf { name: b"U8", default: false, handler: &U8Command }, Node::Leaf { name: b"MACRo", default: false, handler: &MacroCommand { alt_tree: false, strict: false } }, Node::Leaf { name: b"SMACro", default: false, handler: &MacroCommand { alt_tree: false, strict: true } }] }
];

/// The mandated common commands as a shared block, the way a family of
/// instruments would keep them ...
const MANDATORY: &[Node<'static, MinDev>] = &[
    scpi_contrib::ieee488::common::ClsCommand::node(),
    ieee488_ese!(),
    ieee488_esr!(),
    // identification fields as long as a vendor cares to make them (the library puts no limit on them)
    ieee488_idn!(b"VERIFICATION_HARNESS_INSTRUMENTS_INCORPORATED", b"T800_EXTENDED_RANGE_OPTION_B", b"SN0000000000012345", b"FW1_2_3_BOOT4_5_6_FPGA7_8"),
    ieee488_opc!(),
    ieee488_rst!(),
    ieee488_sre!(),
    ieee488_stb!(),
    ieee488_tst!(),
    ieee488_wai!(),
];

/// ... and the same device with that block mounted as a transparent (anonymous,
/// default) branch of the root, built with the `Node::*` constructors and the
/// `ClsCommand::node()` helper instead of the macros. Every message means the
/// same on both trees.
/// What `*IDN?` answers on `MIN_TREE_ALT`.
pub const ALT_IDN: &[u8] = b"VERIFICATION_HARNESS_INSTRUMENTS_INCORPORATED,T800_EXTENDED_RANGE_OPTION_B,SN0000000000012345,FW1_2_3_BOOT4_5_6_FPGA7_8";

pub const MIN_TREE_ALT: Node<'static, MinDev> = Node::root(&[
    Node::default_branch(b"", MANDATORY),
    // the STATus subsystem assembled by hand from the documented command type aliases
    Node::branch(
        b"STATus",
        &[
            Node::branch(
                b"OPERation",
                &[
                    Node::default_leaf(b"EVENt", &scpi_contrib::scpi1999::status::operation::StatOperEventCommand::new()),
                    Node::leaf(b"CONDition", &scpi_contrib::scpi1999::status::operation::StatOperConditionCommand::new()),
                    Node::leaf(b"ENABle", &scpi_contrib::scpi1999::status::operation::StatOperEnableCommand::new()),
                    Node::leaf(b"NTRansition", &scpi_contrib::scpi1999::status::operation::StatOperNTransitionCommand::new()),
                    Node::leaf(b"PTRansition", &scpi_contrib::scpi1999::status::operation::StatOperPTransitionCommand::new()),
                ],
            ),
            Node::branch(
                b"QUEStionable",
                &[
                    Node::default_leaf(b"EVENt", &scpi_contrib::scpi1999::status::questionable::StatQuesEventCommand::new()),
                    Node::leaf(b"CONDition", &scpi_contrib::scpi1999::status::questionable::StatQuesConditionCommand::new()),
                    Node::leaf(b"ENABle", &scpi_contrib::scpi1999::status::questionable::StatQuesEnableCommand::new()),
                    Node::leaf(b"NTRansition", &scpi_contrib::scpi1999::status::questionable::StatQuesNTransitionCommand::new()),
                    Node::leaf(b"PTRansition", &scpi_contrib::scpi1999::status::questionable::StatQuesPTransitionCommand::new()),
                ],
            ),
            Node::leaf(b"PRESet", &scpi_contrib::scpi1999::status::StatPresetCommand),
        ],
    ),
    scpi_system!(),
    Node::branch(b"TEST", &[Node::leaf(b"FAIL", &FailCommand), Node::leaf(b"U8", &U8Command), Node::leaf(b"MACRo", &MacroCommand { alt_tree: true, strict: false }), Node::leaf(b"SMACro", &MacroCommand { alt_tree: true, strict: true })]),
]);

/// A plain IEEE 488.2 instrument (no SCPI status subsystem, no error queue) that relies on the
/// trait's provided `stb()`: the status byte is ESB (ESR & ESE), MAV from the interface and MSS.
#[derive(Default)]
pub struct PlainDev {
    pub esr: u8,
    pub ese: u8,
    pub sre: u8,
}

impl Device for PlainDev {
    fn handle_error(&mut self, err: Error) {
        self.esr |= err.esr_mask();
    }
}

impl IEEE4882 for PlainDev {
    fn sre(&self) -> u8 {
        self.sre
    }
    fn set_sre(&mut self, value: u8) {
        self.sre = value
    }
    fn esr(&self) -> u8 {
        self.esr
    }
    fn set_esr(&mut self, value: u8) {
        self.esr = value
    }
    fn ese(&self) -> u8 {
        self.ese
    }
    fn set_ese(&mut self, value: u8) {
        self.ese = value
    }
    fn tst(&mut self) -> Result<()> {
        Ok(())
    }
    fn rst(&mut self) -> Result<()> {
        Ok(())
    }
    fn cls(&mut self) -> Result<()> {
        self.esr = 0;
        Ok(())
    }
    fn opc(&mut self) -> Result<()> {
        self.esr |= 1;
        Ok(())
    }
}

pub const PLAIN_TREE: Node<'static, PlainDev> = Root![ieee488_cls!(), ieee488_ese!(), ieee488_esr!(), ieee488_opc!(), ieee488_rst!(), ieee488_sre!(), ieee488_stb!(), ieee488_tst!(), ieee488_wai!()];
