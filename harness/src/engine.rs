//! Run engine: sharded proptest campaigns, exhaustive enumerations, evidence,
//! replay files and the known-findings matcher.
//!
//! Everything random is drawn through proptest strategies from a ChaCha RNG
//! seeded from (VERIF_SEED, property, campaign, shard); there is no wall-clock
//! or OS randomness anywhere in a property.

use proptest::strategy::{Strategy, ValueTree};
use proptest::test_runner::{Config, RngAlgorithm, TestCaseError, TestError, TestRng, TestRunner};
use serde::de::DeserializeOwned;
use serde::Serialize;
use serde_json::{json, Value};
use std::cell::{Cell, RefCell};
use std::collections::BTreeMap;
use std::fmt::Debug;
use std::hash::{Hash, Hasher};
use std::panic::{catch_unwind, AssertUnwindSafe};
use std::path::PathBuf;
use std::sync::atomic::{AtomicBool, AtomicU64, Ordering};
use std::sync::Mutex;
use std::time::Instant;

#[derive(Clone, Copy, PartialEq, Eq, Debug)]
pub enum Tier {
    Quick,
    Thorough,
}

impl Tier {
    pub fn name(self) -> &'static str {
        match self {
            Tier::Quick => "quick",
            Tier::Thorough => "thorough",
        }
    }
    /// Pick a size by tier.
    pub fn pick<T>(self, quick: T, thorough: T) -> T {
        match self {
            Tier::Quick => quick,
            Tier::Thorough => thorough,
        }
    }
}

/// A failed check. `signature` is the failure class used to match known
/// findings; `message` explains the concrete disagreement.
#[derive(Clone, Debug, Serialize, serde::Deserialize)]
pub struct Failure {
    pub signature: String,
    pub message: String,
}

impl Failure {
    pub fn new(signature: impl Into<String>, message: impl Into<String>) -> Self {
        Failure {
            signature: signature.into(),
            message: message.into(),
        }
    }
}

#[macro_export]
macro_rules! fail {
    ($sig:expr, $($arg:tt)*) => {
        return Err($crate::engine::Failure::new($sig, format!($($arg)*)))
    };
}

#[macro_export]
macro_rules! ensure {
    ($cond:expr, $sig:expr, $($arg:tt)*) => {
        if !($cond) {
            return Err($crate::engine::Failure::new($sig, format!($($arg)*)));
        }
    };
}

pub type CheckResult = Result<(), Failure>;

/// Per-case observation sink handed to every check.
pub struct Obs {
    labels: RefCell<Vec<&'static str>>,
    nontrivial: Cell<Option<u64>>,
    extra_evals: Cell<u64>,
}

impl Obs {
    pub fn new() -> Self {
        Obs {
            labels: RefCell::new(Vec::new()),
            nontrivial: Cell::new(None),
            extra_evals: Cell::new(0),
        }
    }
    /// Count executions performed inside one check beyond the case itself
    /// (fault enumeration: one base case, many injected faults).
    pub fn executions(&self, n: u64) {
        self.extra_evals.set(self.extra_evals.get() + n);
    }
    /// Count this case under a generator-distribution label.
    pub fn label(&self, l: &'static str) {
        self.labels.borrow_mut().push(l);
    }
    pub fn label_if(&self, cond: bool, l: &'static str) {
        if cond {
            self.label(l);
        }
    }
    /// Mark the case non-trivial; `key` identifies it for distinct counting.
    pub fn nontrivial<K: Hash>(&self, key: &K) {
        let mut h = std::collections::hash_map::DefaultHasher::new();
        key.hash(&mut h);
        self.nontrivial.set(Some(h.finish()));
    }
    pub fn nontrivial_if<K: Hash>(&self, cond: bool, key: &K) {
        if cond {
            self.nontrivial(key);
        }
    }
}

impl Default for Obs {
    fn default() -> Self {
        Self::new()
    }
}

/// Lock-free conservative distinct counter: a bitmap indexed by a 64-bit hash
/// folded to 30 bits. A collision can only make the count smaller.
struct Distinct {
    bits: Vec<AtomicU64>,
    count: AtomicU64,
}

const DISTINCT_BITS: u32 = 30;

impl Distinct {
    fn new() -> Self {
        let words = 1usize << (DISTINCT_BITS - 6);
        let mut v = Vec::with_capacity(words);
        v.resize_with(words, || AtomicU64::new(0));
        Distinct {
            bits: v,
            count: AtomicU64::new(0),
        }
    }
    fn insert(&self, h: u64) {
        let folded = (h ^ (h >> 30) ^ (h >> 47)) & ((1u64 << DISTINCT_BITS) - 1);
        let w = (folded >> 6) as usize;
        let b = 1u64 << (folded & 63);
        let prev = self.bits[w].fetch_or(b, Ordering::Relaxed);
        if prev & b == 0 {
            self.count.fetch_add(1, Ordering::Relaxed);
        }
    }
}

#[derive(Clone, Debug, Serialize)]
pub struct CampaignReport {
    pub name: String,
    pub kind: &'static str,
    pub evaluations: u64,
    pub nontrivial: u64,
    pub exhaustive: bool,
    pub wall_s: f64,
}

pub struct ViolationRecord {
    pub campaign: String,
    pub failure: Failure,
    pub case: Value,
    pub replay_path: PathBuf,
}

type ReplayFn = Box<dyn Fn(&Value) -> Result<CheckResult, String> + Sync + Send>;

/// One engine instance per (property, run).
pub struct Engine {
    pub property: &'static str,
    pub tier: Tier,
    pub seed: u64,
    pub threads: usize,
    pub root: PathBuf,
    /// When set, campaigns are only registered (for replay), not executed.
    pub replay_only: bool,
    pub strict_known: bool,
    started: Instant,
    evaluations: AtomicU64,
    nontrivial_direct: AtomicU64,
    distinct: Distinct,
    labels: Mutex<BTreeMap<&'static str, u64>>,
    samples: Mutex<Vec<Value>>,
    campaigns: Mutex<Vec<CampaignReport>>,
    violations: Mutex<Vec<ViolationRecord>>,
    known_hits: Mutex<Vec<String>>,
    harness_errors: Mutex<Vec<String>>,
    replayers: Mutex<BTreeMap<String, ReplayFn>>,
    known: Vec<KnownFinding>,
    excluded: Mutex<BTreeMap<String, u64>>,
    notes: Mutex<Vec<String>>,
    all_exhaustive: AtomicBool,
    any_campaign: AtomicBool,
}

#[derive(Clone, Debug, serde::Deserialize)]
pub struct KnownFinding {
    pub status: String, // "known" | "fixed"
    pub property: String,
    #[serde(default)]
    pub signature: String,
    #[serde(default)]
    pub commit: String,
    pub what: String,
}

fn splitmix(mut x: u64) -> u64 {
    x = x.wrapping_add(0x9E3779B97F4A7C15);
    let mut z = x;
    z = (z ^ (z >> 30)).wrapping_mul(0xBF58476D1CE4E5B9);
    z = (z ^ (z >> 27)).wrapping_mul(0x94D049BB133111EB);
    z ^ (z >> 31)
}

fn str_hash(s: &str) -> u64 {
    let mut h = 0xcbf29ce484222325u64;
    for b in s.bytes() {
        h ^= b as u64;
        h = h.wrapping_mul(0x100000001b3);
    }
    h
}

pub fn seed_bytes(seed: u64, property: &str, campaign: &str, shard: u64) -> [u8; 32] {
    let mut out = [0u8; 32];
    let mut s = splitmix(seed ^ str_hash(property).rotate_left(17) ^ str_hash(campaign).rotate_left(41));
    s = splitmix(s ^ shard.wrapping_mul(0xD1B54A32D192ED03));
    for chunk in out.chunks_mut(8) {
        s = splitmix(s);
        chunk.copy_from_slice(&s.to_le_bytes());
    }
    out
}

thread_local! {
    static LAST_PANIC: RefCell<Option<String>> = const { RefCell::new(None) };
    static IN_GUARD: Cell<u32> = const { Cell::new(0) };
}

/// Install a panic hook that records the message and location per thread
/// instead of printing, so that a panic inside the library under test becomes
/// an ordinary `Failure` with a stable signature.
pub fn install_quiet_panic_hook() {
    std::panic::set_hook(Box::new(|info| {
        let msg = if let Some(s) = info.payload().downcast_ref::<&str>() {
            s.to_string()
        } else if let Some(s) = info.payload().downcast_ref::<String>() {
            s.clone()
        } else {
            "<non-string panic>".to_string()
        };
        let loc = info
            .location()
            .map(|l| format!("{}:{}", l.file(), l.line()))
            .unwrap_or_default();
        if IN_GUARD.with(|g| g.get()) == 0 {
            // a panic of the harness itself: make it visible
            eprintln!("harness panic: {msg} at {loc}");
        }
        LAST_PANIC.with(|p| *p.borrow_mut() = Some(format!("{msg} at {loc}")));
    }));
}

/// Run `f`, turning a panic into `Err(description)`.
pub fn no_panic<T>(f: impl FnOnce() -> T) -> Result<T, String> {
    IN_GUARD.with(|g| g.set(g.get() + 1));
    let r = catch_unwind(AssertUnwindSafe(f));
    IN_GUARD.with(|g| g.set(g.get() - 1));
    match r {
        Ok(v) => Ok(v),
        Err(_) => Err(LAST_PANIC
            .with(|p| p.borrow_mut().take())
            .unwrap_or_else(|| "panic".into())),
    }
}

/// A case as an evidence sample; very large cases (size-boundary inputs of
/// hundreds of kilobytes) are abbreviated so that evidence files stay small.
fn sample_value<C: Serialize>(case: &C) -> Value {
    let v = serde_json::to_value(case).unwrap_or(Value::Null);
    let text = v.to_string();
    if text.len() <= 6000 {
        v
    } else {
        let head: String = text.chars().take(400).collect();
        json!({ "abbreviated_case": format!("{} characters of JSON", text.len()), "starts_with": head })
    }
}

/// Is this binary built against the alternative library configuration (no
/// `std`, lexical-core `compact`; harness feature `lib-compact`)? Failure
/// signatures carry the suffix `@alt` there, so that a finding known for one
/// configuration does not hide anything in the other.
pub const ALT_CONFIG: bool = cfg!(feature = "lib-compact");
/// Third configuration: scpi without alloc and without unit features (no uom), arrayvec + compact; only the
/// properties that need neither are compiled (props::all).
pub const MIN_CONFIG: bool = cfg!(not(feature = "full"));

pub fn library_configuration() -> &'static str {
    if MIN_CONFIG {
        "scpi built with arrayvec + compact only: no `alloc`, no `std`, no unit features (uom absent); scpi-contrib not built"
    } else if ALT_CONFIG {
        "scpi built without `std` (no_std + alloc) and with `compact` (lexical-core's compact algorithms), arrayvec, all unit features; scpi-contrib with its `unproven` feature"
    } else {
        "scpi with alloc + arrayvec + std and all unit features (default of the harness)"
    }
}

fn guarded(f: impl FnOnce() -> CheckResult) -> CheckResult {
    match no_panic(f) {
        Ok(r) => r,
        Err(p) => Err(Failure::new("panic", format!("panicked: {p}"))),
    }
}

impl Engine {
    pub fn new(property: &'static str, tier: Tier, seed: u64, root: PathBuf) -> Self {
        let known = load_known(&root);
        Engine {
            property,
            tier,
            seed,
            threads: std::env::var("VERIF_THREADS")
                .ok()
                .and_then(|s| s.parse().ok())
                .unwrap_or(16),
            root,
            replay_only: false,
            strict_known: false,
            started: Instant::now(),
            evaluations: AtomicU64::new(0),
            nontrivial_direct: AtomicU64::new(0),
            distinct: Distinct::new(),
            labels: Mutex::new(BTreeMap::new()),
            samples: Mutex::new(Vec::new()),
            campaigns: Mutex::new(Vec::new()),
            violations: Mutex::new(Vec::new()),
            known_hits: Mutex::new(Vec::new()),
            harness_errors: Mutex::new(Vec::new()),
            replayers: Mutex::new(BTreeMap::new()),
            known,
            excluded: Mutex::new(BTreeMap::new()),
            notes: Mutex::new(Vec::new()),
            all_exhaustive: AtomicBool::new(true),
            any_campaign: AtomicBool::new(false),
        }
    }

    /// VERIF_ONLY=<substring> (sensitivity experiments only): run just the
    /// campaigns whose name contains it; the evidence notes the restriction.
    fn filtered_out(&self, name: &str) -> bool {
        match std::env::var("VERIF_ONLY") {
            Ok(f) if !f.is_empty() => {
                let out = !name.contains(&f);
                if out {
                    self.note(format!("campaign {name} skipped (VERIF_ONLY={f})"));
                }
                out
            }
            _ => false,
        }
    }

    pub fn failed(&self) -> bool {
        !self.violations.lock().unwrap().is_empty()
    }

    pub fn note(&self, s: impl Into<String>) {
        self.notes.lock().unwrap().push(s.into());
    }

    /// Record a defect of the harness itself (reference disagreement,
    /// unhealthy generator): exit 2, never a violation.
    pub fn harness_error(&self, s: impl Into<String>) {
        let s = s.into();
        if s.contains("unhealthy") && std::env::var("VERIF_ONLY").map_or(false, |f| !f.is_empty()) {
            // health floors refer to campaigns that the experiment filter skipped
            self.note(format!("not enforced under VERIF_ONLY: {s}"));
            return;
        }
        self.harness_errors.lock().unwrap().push(s);
    }

    /// Count cases that a generator left out by construction because they
    /// belong to a known-finding class.
    pub fn count_excluded(&self, class: &str, n: u64) {
        *self.excluded.lock().unwrap().entry(class.to_string()).or_insert(0) += n;
    }

    fn is_known(&self, sig: &str) -> Option<&KnownFinding> {
        if self.strict_known {
            return None;
        }
        self.known
            .iter()
            // a finding listed without a configuration suffix holds in every library configuration
            .find(|k| k.status == "known" && k.property == self.property && (k.signature == sig || (!k.signature.contains('@') && (sig.strip_suffix("@alt") == Some(k.signature.as_str()) || sig.strip_suffix("@min") == Some(k.signature.as_str())))))
    }

    fn absorb(&self, obs: &Obs, sample: impl FnOnce() -> Value, local: &mut LocalStats) {
        local.evaluations += 1 + obs.extra_evals.get();
        for l in obs.labels.borrow_mut().drain(..) {
            *local.labels.entry(l).or_insert(0) += 1;
        }
        if let Some(h) = obs.nontrivial.take() {
            local.nontrivial += 1;
            self.distinct.insert(h);
            // keep the first few and then exponentially thinning samples
            if local.samples.len() < 2 || (local.nontrivial.is_power_of_two() && local.samples.len() < 6) {
                local.samples.push(sample());
            }
        }
    }

    fn merge(&self, local: LocalStats) {
        self.evaluations.fetch_add(local.evaluations, Ordering::Relaxed);
        let mut g = self.labels.lock().unwrap();
        for (k, v) in local.labels {
            *g.entry(k).or_insert(0) += v;
        }
        drop(g);
        let mut s = self.samples.lock().unwrap();
        for v in local.samples {
            if s.len() < 24 {
                s.push(v);
            }
        }
    }

    fn record_failure(&self, campaign: &str, mut failure: Failure, case: Value) {
        if ALT_CONFIG && !failure.signature.starts_with("harness") {
            failure.signature.push_str("@alt");
            failure.message = format!("[library configuration: no std, lexical-core compact] {}", failure.message);
        }
        if MIN_CONFIG && !failure.signature.starts_with("harness") {
            failure.signature.push_str("@min");
            failure.message = format!("[library configuration: no alloc, no unit features, arrayvec + compact] {}", failure.message);
        }
        if failure.signature.starts_with("harness") {
            // a defect of the machinery (generator produced something its own
            // reference cannot read, two references disagree): exit 2
            self.harness_error(format!("campaign {campaign}: {} ({}) case={}", failure.message, failure.signature, case));
            return;
        }
        if let Some(k) = self.is_known(&failure.signature) {
            let line = format!(
                "KNOWN-FINDING: property={} {} [{}] e.g. {}",
                self.property, k.what, failure.signature, failure.message
            );
            let mut hits = self.known_hits.lock().unwrap();
            if !hits.iter().any(|h| h.contains(&format!("[{}]", failure.signature))) {
                hits.push(line);
            }
            return;
        }
        let mut h = std::collections::hash_map::DefaultHasher::new();
        case.to_string().hash(&mut h);
        campaign.hash(&mut h);
        let dir = self.root.join("replays");
        let _ = std::fs::create_dir_all(&dir);
        let path = dir.join(format!("{}-{}-{:016x}.json", self.property, campaign, h.finish()));
        let doc = json!({
            "property": self.property,
            "campaign": campaign,
            "signature": failure.signature,
            "message": failure.message,
            "seed": self.seed,
            "tier": self.tier.name(),
            "case": case,
        });
        let _ = std::fs::write(&path, serde_json::to_string_pretty(&doc).unwrap());
        self.violations.lock().unwrap().push(ViolationRecord {
            campaign: campaign.to_string(),
            failure,
            case,
            replay_path: path,
        });
    }

    fn register_replayer<C, F>(&self, name: &str, check: F)
    where
        C: DeserializeOwned,
        F: Fn(&C, &Obs) -> CheckResult + Sync + Send + 'static,
    {
        let f: ReplayFn = Box::new(move |v: &Value| {
            let case: C = serde_json::from_value(v.clone()).map_err(|e| e.to_string())?;
            let obs = Obs::new();
            Ok(guarded(|| check(&case, &obs)))
        });
        self.replayers.lock().unwrap().insert(name.to_string(), f);
    }

    /// Run a proptest campaign of `cases` cases split over the shards.
    ///
    /// `make_strategy` is called once per shard (strategies are not `Sync`).
    pub fn proptest<C, S, MS, F>(&self, name: &str, cases: u64, make_strategy: MS, check: F)
    where
        C: Debug + Clone + Serialize + DeserializeOwned + 'static,
        S: Strategy<Value = C>,
        MS: Fn() -> S + Sync,
        F: Fn(&C, &Obs) -> CheckResult + Sync + Send + Clone + 'static,
    {
        self.register_replayer::<C, _>(name, check.clone());
        if self.replay_only || self.failed() || self.filtered_out(name) {
            return;
        }
        // second library configuration: a third of the budget, except where numbers are read or written
        let cases = if ALT_CONFIG && !matches!(self.property, "C07" | "C08" | "C09" | "C17") { (cases / 3).max(1) } else { cases };
        self.any_campaign.store(true, Ordering::Relaxed);
        self.all_exhaustive.store(false, Ordering::Relaxed);
        let t0 = Instant::now();
        let stop = AtomicBool::new(false);
        let before_eval = self.evaluations.load(Ordering::Relaxed);
        let before_nt = self.distinct.count.load(Ordering::Relaxed);
        let shards = self.threads.max(1) as u64;
        let per_shard = cases.div_ceil(shards);
        let first_fail: Mutex<Option<(Failure, Value)>> = Mutex::new(None);
        std::thread::scope(|scope| {
            for shard in 0..shards {
                let stop = &stop;
                let first_fail = &first_fail;
                let make_strategy = &make_strategy;
                let check = check.clone();
                scope.spawn(move || {
                    let strategy = make_strategy();
                    let cfg = Config {
                        cases: per_shard.min(u32::MAX as u64) as u32,
                        failure_persistence: None,
                        max_shrink_iters: 4096,
                        max_global_rejects: 1_000_000,
                        max_local_rejects: 1_000_000,
                        ..Config::default()
                    };
                    let rng = TestRng::from_seed(
                        RngAlgorithm::ChaCha,
                        &seed_bytes(self.seed, self.property, name, shard),
                    );
                    let mut runner = TestRunner::new_with_rng(cfg, rng);
                    let local = RefCell::new(LocalStats::default());
                    let failed_once = Cell::new(false);
                    let last_failure: RefCell<Option<Failure>> = RefCell::new(None);
                    let result = runner.run(&strategy, |case| {
                        // another shard already holds a minimal failure: wind down
                        // (also cuts this shard's own shrinking short)
                        if stop.load(Ordering::Relaxed) {
                            return Ok(());
                        }
                        let obs = Obs::new();
                        let r = guarded(|| check(&case, &obs));
                        if !failed_once.get() {
                            self.absorb(
                                &obs,
                                || sample_value(&case),
                                &mut local.borrow_mut(),
                            );
                        }
                        match r {
                            Ok(()) => Ok(()),
                            Err(f) => {
                                failed_once.set(true);
                                let msg = f.message.clone();
                                *last_failure.borrow_mut() = Some(f);
                                Err(TestCaseError::fail(msg))
                            }
                        }
                    });
                    self.merge(local.into_inner());
                    match result {
                        Ok(()) => {}
                        Err(TestError::Fail(_, minimal)) => {
                            stop.store(true, Ordering::Relaxed);
                            // re-run the minimal case to obtain its own failure record
                            let obs = Obs::new();
                            let f = guarded(|| check(&minimal, &obs)).err().unwrap_or_else(|| {
                                last_failure.borrow_mut().take().unwrap_or_else(|| {
                                    Failure::new("unstable", "minimal case no longer fails")
                                })
                            });
                            let v = serde_json::to_value(&minimal).unwrap_or(Value::Null);
                            let mut ff = first_fail.lock().unwrap();
                            if ff.is_none() {
                                *ff = Some((f, v));
                            }
                        }
                        Err(TestError::Abort(reason)) => {
                            self.harness_error(format!("campaign {name}: proptest aborted: {reason}"));
                        }
                    }
                });
            }
        });
        if let Some((f, v)) = first_fail.into_inner().unwrap() {
            self.record_failure(name, f, v);
        }
        self.campaigns.lock().unwrap().push(CampaignReport {
            name: name.to_string(),
            kind: "proptest",
            evaluations: self.evaluations.load(Ordering::Relaxed) - before_eval,
            nontrivial: self.distinct.count.load(Ordering::Relaxed) - before_nt,
            exhaustive: false,
            wall_s: t0.elapsed().as_secs_f64(),
        });
    }

    /// Exhaustively run `check` over `n_parts` partitions, each enumerated by
    /// `enumerate(part, &mut dyn FnMut(C) -> bool)` (return false to stop).
    /// Every case of an enumeration is distinct by construction.
    pub fn enumerate<C, E, F>(&self, name: &str, n_parts: u64, enumerate: E, check: F)
    where
        C: Serialize + DeserializeOwned + 'static,
        E: Fn(u64, &mut dyn FnMut(C) -> bool) + Sync,
        F: Fn(&C, &Obs) -> CheckResult + Sync + Send + Clone + 'static,
    {
        self.register_replayer::<C, _>(name, check.clone());
        if self.replay_only || self.failed() || self.filtered_out(name) {
            return;
        }
        self.any_campaign.store(true, Ordering::Relaxed);
        let t0 = Instant::now();
        let before_eval = self.evaluations.load(Ordering::Relaxed);
        let before_nt = self.nontrivial_direct.load(Ordering::Relaxed);
        let next = AtomicU64::new(0);
        let stop = AtomicBool::new(false);
        let first_fail: Mutex<Option<(Failure, Value)>> = Mutex::new(None);
        std::thread::scope(|scope| {
            for _ in 0..self.threads.max(1) {
                let (next, stop, first_fail, enumerate, check) =
                    (&next, &stop, &first_fail, &enumerate, check.clone());
                scope.spawn(move || {
                    let mut local = LocalStats::default();
                    loop {
                        let part = next.fetch_add(1, Ordering::Relaxed);
                        if part >= n_parts || stop.load(Ordering::Relaxed) {
                            break;
                        }
                        enumerate(part, &mut |case: C| {
                            let obs = Obs::new();
                            let r = guarded(|| check(&case, &obs));
                            local.evaluations += 1 + obs.extra_evals.get();
                            for l in obs.labels.borrow_mut().drain(..) {
                                *local.labels.entry(l).or_insert(0) += 1;
                            }
                            if obs.nontrivial.take().is_some() {
                                local.nontrivial += 1;
                                if local.samples.len() < 2
                                    || (local.nontrivial.is_power_of_two() && local.samples.len() < 5)
                                {
                                    local.samples.push(sample_value(&case));
                                }
                            }
                            if let Err(f) = r {
                                stop.store(true, Ordering::Relaxed);
                                let mut ff = first_fail.lock().unwrap();
                                if ff.is_none() {
                                    *ff = Some((f, serde_json::to_value(&case).unwrap_or(Value::Null)));
                                }
                                return false;
                            }
                            // poll the stop flag now and then
                            local.evaluations & 0xFFF != 0 || !stop.load(Ordering::Relaxed)
                        });
                    }
                    self.nontrivial_direct.fetch_add(local.nontrivial, Ordering::Relaxed);
                    self.merge(local);
                });
            }
        });
        let complete = first_fail.lock().unwrap().is_none();
        if let Some((f, v)) = first_fail.into_inner().unwrap() {
            self.record_failure(name, f, v);
        }
        if !complete {
            self.all_exhaustive.store(false, Ordering::Relaxed);
        }
        self.campaigns.lock().unwrap().push(CampaignReport {
            name: name.to_string(),
            kind: "enumeration",
            evaluations: self.evaluations.load(Ordering::Relaxed) - before_eval,
            nontrivial: self.nontrivial_direct.load(Ordering::Relaxed) - before_nt,
            exhaustive: complete,
            wall_s: t0.elapsed().as_secs_f64(),
        });
    }

    /// Run a fixed list of cases (regression inputs, corpus files).
    pub fn fixed<C, F>(&self, name: &str, cases: Vec<C>, check: F)
    where
        C: Serialize + DeserializeOwned + Clone + Sync + 'static,
        F: Fn(&C, &Obs) -> CheckResult + Sync + Send + Clone + 'static,
    {
        let n = cases.len() as u64;
        let cases = &cases;
        self.enumerate::<C, _, _>(
            name,
            n,
            |part, f| {
                f(cases[part as usize].clone());
            },
            check,
        );
    }

    /// Coverage-guided campaign: run the cargo-fuzz target `target` (whose body
    /// applies the same oracle) for `runs` executions split over `jobs`
    /// libFuzzer processes seeded from VERIF_SEED. A crash artifact is turned
    /// into a case with `make_case`, re-judged by `check` and recorded as a
    /// violation with a replay file; timeouts / OOM / tool failures are
    /// inconclusive (exit 2), never violations.
    pub fn fuzz<C, MK, F>(&self, name: &str, target: &str, runs: u64, make_case: MK, check: F)
    where
        C: Serialize + DeserializeOwned + Send + 'static,
        MK: Fn(&[u8]) -> C,
        F: Fn(&C, &Obs) -> CheckResult + Sync + Send + Clone + 'static,
    {
        self.register_replayer::<C, _>(name, check.clone());
        if self.replay_only || self.failed() || self.filtered_out(name) {
            return;
        }
        if cfg!(debug_assertions) || ALT_CONFIG || MIN_CONFIG {
            // the fuzz targets are built once (by cargo-fuzz, default library configuration, with
            // debug assertions on); the campaign is driven from the default release run only
            return;
        }
        self.any_campaign.store(true, Ordering::Relaxed);
        self.all_exhaustive.store(false, Ordering::Relaxed);
        let t0 = Instant::now();
        let harness = self.root.join("harness");
        let seed_corpus = self.root.join("corpus").join(target);
        let jobs = 8u64;
        // build once
        let build = std::process::Command::new("cargo").args(["+nightly", "fuzz", "build", target]).current_dir(&harness).env("CARGO_NET_OFFLINE", "true").output();
        match build {
            Ok(o) if o.status.success() => {}
            Ok(o) => {
                self.harness_error(format!("fuzz build of {target} failed: {}", String::from_utf8_lossy(&o.stderr).lines().rev().take(5).collect::<Vec<_>>().join(" | ")));
                return;
            }
            Err(e) => {
                self.harness_error(format!("cannot start cargo fuzz: {e}"));
                return;
            }
        }
        // run the built fuzzer binaries directly (no concurrent cargo invocations)
        let bin = harness.join("fuzz").join("target").join("x86_64-unknown-linux-gnu").join("release").join(target);
        if !bin.exists() {
            self.harness_error(format!("fuzz binary {} not found after the build", bin.display()));
            return;
        }
        let mut children = Vec::new();
        for j in 0..jobs {
            let work = harness.join("fuzz").join("corpus-work").join(format!("{target}-{j}"));
            let arts = harness.join("fuzz").join("artifacts").join(format!("{target}-{j}"));
            let _ = std::fs::remove_dir_all(&work);
            let _ = std::fs::remove_dir_all(&arts);
            let _ = std::fs::create_dir_all(&work);
            let _ = std::fs::create_dir_all(&arts);
            let log = arts.join("libfuzzer.log");
            let seed = (self.seed.wrapping_mul(1000).wrapping_add(j) % 0x7fff_ffff).max(1);
            let child = std::process::Command::new(&bin)
                .arg(&work)
                .arg(&seed_corpus)
                .args([
                    format!("-runs={}", runs / jobs),
                    format!("-seed={seed}"),
                    "-max_len=256".to_string(),
                    "-len_control=0".to_string(),
                    "-timeout=20".to_string(),
                    "-rss_limit_mb=4096".to_string(),
                    "-print_final_stats=1".to_string(),
                    format!("-artifact_prefix={}/", arts.display()),
                ])
                .current_dir(&harness)
                .env("CARGO_NET_OFFLINE", "true")
                .stdout(std::process::Stdio::null())
                // libFuzzer's log goes to a file: with a pipe the processes that are not being
                // waited for block as soon as the pipe buffer is full and the campaign runs serially
                .stderr(match std::fs::File::create(&log) {
                    Ok(f) => std::process::Stdio::from(f),
                    Err(_) => std::process::Stdio::null(),
                })
                .spawn();
            match child {
                Ok(c) => children.push((j, arts, log, c)),
                Err(e) => self.harness_error(format!("cannot start fuzzer {target}: {e}")),
            }
        }
        let mut executed = 0u64;
        for (j, arts, log, mut child) in children {
            let status = match child.wait() {
                Ok(o) => o,
                Err(e) => {
                    self.harness_error(format!("fuzzer {target}-{j}: {e}"));
                    continue;
                }
            };
            let err_bytes = std::fs::read(&log).unwrap_or_default();
            let _ = std::fs::remove_file(&log);
            let _ = std::fs::remove_dir_all(harness.join("fuzz").join("corpus-work").join(format!("{target}-{j}")));
            let err = String::from_utf8_lossy(&err_bytes);
            if let Some(l) = err.lines().find(|l| l.contains("stat::number_of_executed_units:")) {
                executed += l.rsplit(':').next().and_then(|v| v.trim().parse::<u64>().ok()).unwrap_or(0);
            }
            if status.success() {
                continue;
            }
            // artifacts
            let mut found = false;
            if let Ok(rd) = std::fs::read_dir(&arts) {
                for ent in rd.flatten() {
                    let fname = ent.file_name().to_string_lossy().into_owned();
                    let Ok(bytes) = std::fs::read(ent.path()) else { continue };
                    found = true;
                    if fname.starts_with("crash-") {
                        let case = make_case(&bytes);
                        let obs = Obs::new();
                        match guarded(|| check(&case, &obs)) {
                            Err(f) => self.record_failure(name, f, serde_json::to_value(&case).unwrap_or(Value::Null)),
                            Ok(()) => self.harness_error(format!("fuzzer {target}-{j} crashed on {fname} but the harness oracle accepts that input; last lines: {}", err.lines().rev().take(6).collect::<Vec<_>>().join(" | "))),
                        }
                    } else if fname.starts_with("timeout-") {
                        // libFuzzer's per-input clock also runs while the whole machine stalls (a snapshot, heavy
                        // over-subscription). The input is run again here, in a thread of its own with a wall-clock
                        // limit: a hang that reproduces is inconclusive as before, a failure is a failure, and an
                        // input that is done in a moment was not the cause of the timeout.
                        let case = make_case(&bytes);
                        let value = serde_json::to_value(&case).unwrap_or(Value::Null);
                        let (tx, rx) = std::sync::mpsc::channel();
                        let chk = check.clone();
                        std::thread::spawn(move || {
                            let obs = Obs::new();
                            let t = Instant::now();
                            let r = guarded(|| chk(&case, &obs));
                            let _ = tx.send((r, t.elapsed().as_secs_f64()));
                        });
                        match rx.recv_timeout(std::time::Duration::from_secs(60)) {
                            Ok((Err(f), _)) => self.record_failure(name, f, value),
                            Ok((Ok(()), secs)) if secs < 5.0 => self.note(format!("fuzzer {target}-{j} reported {fname}; the input replays in {secs:.3} s and satisfies the oracle: counted as a stall of the machine, not of the code")),
                            Ok((Ok(()), secs)) => self.harness_error(format!("fuzzer {target}-{j} stopped with {fname}: the input takes {secs:.1} s here (slow input): inconclusive")),
                            Err(_) => self.harness_error(format!("fuzzer {target}-{j} stopped with {fname} and the input does not finish within 60 s here either (hang): inconclusive")),
                        }
                    } else {
                        self.harness_error(format!("fuzzer {target}-{j} stopped with {fname} (out of memory / other): inconclusive"));
                    }
                }
            }
            if !found {
                self.harness_error(format!("fuzzer {target}-{j} failed without artifact: {}", err.lines().rev().take(6).collect::<Vec<_>>().join(" | ")));
            }
        }
        self.evaluations.fetch_add(executed, Ordering::Relaxed);
        self.campaigns.lock().unwrap().push(CampaignReport { name: name.to_string(), kind: "libfuzzer", evaluations: executed, nontrivial: 0, exhaustive: false, wall_s: t0.elapsed().as_secs_f64() });
        self.note(format!("libFuzzer target {target}: {executed} executions over {jobs} processes (coverage-guided, seeds derived from VERIF_SEED; non-trivial cases are not counted for fuzz executions)"));
    }

    pub fn label_count(&self, l: &str) -> u64 {
        self.labels.lock().unwrap().get(l).copied().unwrap_or(0)
    }

    /// Generator health floor: `num` label must be at least `min` of `den`.
    pub fn require_fraction(&self, num: &'static str, den: &'static str, min: f64) {
        if self.replay_only || self.failed() {
            return;
        }
        let n = self.label_count(num) as f64;
        let d = self.label_count(den) as f64;
        if d == 0.0 || n / d < min {
            self.harness_error(format!(
                "generator unhealthy: label {num} = {n} of {den} = {d} is below the floor {min}"
            ));
        }
    }

    pub fn replay(&self, campaign: &str, case: &Value) -> Result<CheckResult, String> {
        let map = self.replayers.lock().unwrap();
        match map.get(campaign) {
            Some(f) => f(case),
            None => Err(format!(
                "no campaign named {campaign} in {} (have: {:?})",
                self.property,
                map.keys().collect::<Vec<_>>()
            )),
        }
    }

    /// Write the evidence file, print the verdict lines, return the exit code.
    pub fn finish(&self, meta: &PropertyMeta) -> i32 {
        let wall = self.started.elapsed().as_secs_f64();
        let violations = self.violations.lock().unwrap();
        let harness_errors = self.harness_errors.lock().unwrap();
        let campaigns = self.campaigns.lock().unwrap();
        let labels = self.labels.lock().unwrap();
        let mut samples = self.samples.lock().unwrap().clone();
        if samples.is_empty() {
            samples.push(json!("no non-trivial case was generated"));
        }
        let distinct =
            self.distinct.count.load(Ordering::Relaxed) + self.nontrivial_direct.load(Ordering::Relaxed);
        let exhaustive = self.any_campaign.load(Ordering::Relaxed)
            && self.all_exhaustive.load(Ordering::Relaxed)
            && violations.is_empty();
        let excluded = self.excluded.lock().unwrap();
        let evidence = json!({
            "property_id": self.property,
            "tier": self.tier.name(),
            "seed": self.seed,
            "level": meta.level,
            "coverage": {
                "evaluations": self.evaluations.load(Ordering::Relaxed),
                "distinct_nontrivial": distinct,
                "rule": meta.rule,
                "samples": samples,
                "exhaustive": exhaustive,
                "campaigns": &*campaigns,
                "labels": &*labels,
                "excluded_known_classes": &*excluded,
                "distinct_counting": "hash bitmap of 2^30 bits for generated cases (collisions can only undercount); enumerated cases are distinct by construction and counted directly",
                "notes": &*self.notes.lock().unwrap(),
                "known_findings_hit": &*self.known_hits.lock().unwrap(),
                "profile": if cfg!(debug_assertions) { "checked (debug assertions + overflow checks)" } else { "release" },
                "library_configuration": library_configuration(),
            },
            "assumptions": meta.assumptions,
            "wall_s": wall,
            "violations": violations.len(),
        });
        let dir = self.root.join("evidence");
        let _ = std::fs::create_dir_all(&dir);
        let suffix = std::env::var("VERIF_EVIDENCE_SUFFIX").unwrap_or_default();
        let path = dir.join(format!("{}{}.json", self.property, suffix));
        if let Err(e) = std::fs::write(&path, serde_json::to_string_pretty(&evidence).unwrap()) {
            eprintln!("cannot write evidence {path:?}: {e}");
            return 2;
        }
        for k in self.known_hits.lock().unwrap().iter() {
            println!("{k}");
        }
        for v in violations.iter() {
            println!(
                "VIOLATION property={} replay={}",
                self.property,
                v.replay_path.display()
            );
            println!(
                "  campaign={} signature={} : {}",
                v.campaign, v.failure.signature, v.failure.message
            );
            let c = v.case.to_string();
            println!("  case={}", if c.len() > 600 { &c[..600] } else { &c });
        }
        if !violations.is_empty() {
            return 1;
        }
        if !harness_errors.is_empty() {
            for e in harness_errors.iter() {
                println!("INCONCLUSIVE property={} {}", self.property, e);
            }
            return 2;
        }
        println!(
            "OK property={} tier={} seed={} evaluations={} distinct_nontrivial={} wall_s={:.1}",
            self.property,
            self.tier.name(),
            self.seed,
            self.evaluations.load(Ordering::Relaxed),
            distinct,
            wall
        );
        0
    }
}

#[derive(Default)]
struct LocalStats {
    evaluations: u64,
    nontrivial: u64,
    labels: BTreeMap<&'static str, u64>,
    samples: Vec<Value>,
}

pub struct PropertyMeta {
    pub id: &'static str,
    pub level: &'static str,
    pub rule: &'static str,
    pub assumptions: &'static [&'static str],
    pub run: fn(&Engine),
}

fn load_known(root: &std::path::Path) -> Vec<KnownFinding> {
    let p = root.join("known_findings.json");
    match std::fs::read_to_string(&p) {
        Ok(s) => match serde_json::from_str::<Value>(&s) {
            Ok(v) => v
                .get("findings")
                .and_then(|f| serde_json::from_value::<Vec<KnownFinding>>(f.clone()).ok())
                .unwrap_or_default(),
            Err(_) => Vec::new(),
        },
        Err(_) => Vec::new(),
    }
}

/// Generate one value from a strategy with a deterministic RNG (used to
/// pre-generate tree pools etc. outside a campaign, still from the seed).
pub fn sample_strategy<S: Strategy>(s: &S, seed: [u8; 32], n: usize) -> Vec<S::Value> {
    let rng = TestRng::from_seed(RngAlgorithm::ChaCha, &seed);
    let mut runner = TestRunner::new_with_rng(Config::default(), rng);
    (0..n)
        .map(|_| s.new_tree(&mut runner).expect("strategy rejected").current())
        .collect()
}
