//! Command-tree models (DESIGN 3.2): generated, then turned into real
//! `scpi::tree::Node`s with recorder leaves.
use crate::model::mnemonic::{matches, short_of, split_suffix, Verdict};
use crate::rec::{LogDev, Rec};
use proptest::prelude::*;
use scpi::tree::Node;
use serde::{Deserialize, Serialize};

#[derive(Clone, Debug, PartialEq, Eq, Hash, Serialize, Deserialize)]
pub enum TNode {
    Leaf { name: String, default: bool, id: usize },
    Branch { name: String, default: bool, children: Vec<TNode> },
}

impl TNode {
    pub fn name(&self) -> &str {
        match self {
            TNode::Leaf { name, .. } | TNode::Branch { name, .. } => name,
        }
    }
    pub fn is_default(&self) -> bool {
        match self {
            TNode::Leaf { default, .. } | TNode::Branch { default, .. } => *default,
        }
    }
    pub fn is_branch(&self) -> bool {
        matches!(self, TNode::Branch { .. })
    }
    pub fn children(&self) -> &[TNode] {
        match self {
            TNode::Branch { children, .. } => children,
            _ => &[],
        }
    }
}

/// A tree: the children of the (anonymous) root branch.
#[derive(Clone, Debug, PartialEq, Eq, Hash, Serialize, Deserialize)]
pub struct Tree {
    pub root: Vec<TNode>,
    pub leaves: usize,
}

fn forms(def: &str) -> Vec<Vec<u8>> {
    let d = def.trim_start_matches('*').as_bytes();
    let (alpha, suffix) = split_suffix(d);
    let short = short_of(alpha);
    let suffixes: Vec<&[u8]> = if suffix.is_empty() || suffix == b"1" { vec![b"", b"1"] } else { vec![suffix] };
    let mut v = Vec::new();
    for a in [short, alpha] {
        if a.is_empty() {
            continue;
        }
        for s in &suffixes {
            let mut f = a.to_vec();
            f.extend_from_slice(s);
            v.push(f);
        }
    }
    v
}

/// Could some received mnemonic match both definitions?
pub fn conflict(a: &str, b: &str) -> bool {
    if a.is_empty() || b.is_empty() {
        return false; // the anonymous default leaf matches nothing
    }
    if a.starts_with('*') != b.starts_with('*') {
        return false;
    }
    let (da, db) = (a.trim_start_matches('*').as_bytes(), b.trim_start_matches('*').as_bytes());
    forms(b).iter().any(|f| matches(da, f) != Verdict::NoMatch) || forms(a).iter().any(|f| matches(db, f) != Verdict::NoMatch)
}

/// Mnemonics visible from a branch: its children plus, recursively, those of
/// its default child branch.
pub fn visible(children: &[TNode]) -> Vec<&str> {
    let mut v: Vec<&str> = children.iter().map(|c| c.name()).collect();
    if let Some(TNode::Branch { children: sub, .. }) = children.iter().find(|c| c.is_branch() && c.is_default()) {
        v.extend(visible(sub));
    }
    v
}

#[derive(Clone, Debug)]
struct Spec {
    name: String,
    kind: u8, // 0 leaf, 1 branch
    want_default: bool,
    sub: Vec<Spec>,
}

fn name_strategy() -> impl Strategy<Value = String> {
    prop_oneof![
        // tiny alphabets make shared prefixes and near collisions frequent
        5 => ("[A-C]{1,3}", "[a-c]{0,3}", prop_oneof![4 => Just(""), 1 => Just("1"), 1 => Just("2"), 1 => Just("12")]).prop_map(|(u, l, s)| format!("{u}{l}{s}")),
        3 => ("[A-Z]{1,5}", "[a-z]{0,5}", prop_oneof![4 => Just(""), 1 => Just("1"), 1 => Just("2")]).prop_map(|(u, l, s)| format!("{u}{l}{s}")),
        1 => "[A-Z]{12}",
        1 => "[A-Z]",
        // a name that starts in lower case (`pH`, `mVolt`): it has no short form, only its full spelling in any case
        1 => prop_oneof!["[a-c][A-C]{1,2}[a-c]{0,2}", "[a-z][A-Z][a-z]{1,3}", "[a-c]{1,4}[12]?"],
        // the underscore 488.2 allows in a mnemonic: inside the short form, at its end, inside the optional tail
        1 => prop_oneof!["[A-C]{1,2}_[A-C]{1,2}[a-c]{0,2}", "[A-C]{1,3}_[a-c]{1,3}", "[A-C]{1,3}[a-c]{1,2}_[a-c]{1,2}", "[A-Z]{2,4}_[a-z]{2,4}[12]?"],
    ]
}

fn spec_strategy(depth: u32) -> BoxedStrategy<Spec> {
    let leaf = (name_strategy(), any::<bool>()).prop_map(|(name, want_default)| Spec { name, kind: 0, want_default, sub: vec![] }).boxed();
    if depth == 0 {
        return leaf;
    }
    prop_oneof![
        3 => leaf,
        2 => (name_strategy(), any::<bool>(), prop_oneof![9 => proptest::collection::vec(spec_strategy(depth - 1), 1..5), 1 => proptest::collection::vec(spec_strategy(depth.min(2) - 1), 6..10)]).prop_map(|(name, want_default, sub)| Spec { name, kind: 1, want_default, sub }),
    ]
    .boxed()
}

fn add_sibling(list: &mut Vec<Spec>, pick: usize, sfx: &str) {
    if pick & 1 == 1 {
        let branches: Vec<usize> = (0..list.len()).filter(|i| list[*i].kind == 1).collect();
        if !branches.is_empty() {
            let b = branches[(pick >> 1) % branches.len()];
            return add_sibling(&mut list[b].sub, pick >> 3, sfx);
        }
    }
    if list.is_empty() || list.len() >= 5 {
        return;
    }
    let base = list[(pick >> 1) % list.len()].clone();
    let (alpha, _) = split_suffix(base.name.as_bytes());
    let mut name = String::from_utf8(alpha.to_vec()).unwrap();
    name.truncate(12 - sfx.len());
    name.push_str(sfx);
    list.push(Spec { name, kind: 0, want_default: false, sub: vec![] });
}

fn build(specs: Vec<Spec>, next_id: &mut usize, anonymous_default: bool) -> Vec<TNode> {
    // first pass: build children (recursively) without default flags
    let mut nodes: Vec<(TNode, bool)> = Vec::new();
    for s in specs {
        let node = if s.kind == 0 {
            let id = *next_id;
            *next_id += 1;
            TNode::Leaf { name: s.name, default: false, id }
        } else {
            let children = build(s.sub, next_id, s.want_default && s.name.len() % 2 == 0);
            TNode::Branch { name: s.name, default: false, children }
        };
        nodes.push((node, s.want_default));
    }
    // at most one default leaf and one default branch; defaults first
    let mut out: Vec<TNode> = Vec::new();
    let mut have_leaf = false;
    let mut have_branch = false;
    if anonymous_default {
        let id = *next_id;
        *next_id += 1;
        out.push(TNode::Leaf { name: String::new(), default: true, id });
        have_leaf = true;
    }
    let mut rest = Vec::new();
    for (node, want) in nodes {
        match node {
            TNode::Leaf { name, id, .. } if want && !have_leaf => {
                have_leaf = true;
                out.insert(0, TNode::Leaf { name, default: true, id });
            }
            TNode::Branch { name, children, .. } if want && !have_branch => {
                have_branch = true;
                out.push(TNode::Branch { name, default: true, children });
            }
            n => rest.push(n),
        }
    }
    // two defaults in one branch: only one of them can be first; in half of the trees it is the
    // default sub-branch that comes before the default leaf
    if have_leaf && have_branch {
        let odd = out.iter().map(|n| n.name().len()).sum::<usize>() % 2 == 1;
        if odd {
            if let Some(i) = out.iter().position(|n| n.is_branch() && n.is_default()) {
                let b = out.remove(i);
                out.insert(0, b);
            }
        }
    }
    out.extend(rest);
    // remove children whose mnemonic conflicts with one already visible
    let mut kept: Vec<TNode> = Vec::new();
    for n in out {
        let mut cand = kept.clone();
        cand.push(n.clone());
        let vis = visible(&cand);
        let mut ok = true;
        'outer: for i in 0..vis.len() {
            for j in 0..i {
                if conflict(vis[i], vis[j]) || (vis[i].is_empty() && vis[j].is_empty()) {
                    ok = false;
                    break 'outer;
                }
            }
        }
        if ok && n.name().len() <= 12 {
            kept.push(n);
        }
    }
    kept
}

fn count_leaves(nodes: &[TNode]) -> usize {
    nodes.iter().map(|n| if n.is_branch() { count_leaves(n.children()) } else { 1 }).sum()
}

fn renumber(nodes: &mut [TNode], next: &mut usize) {
    for n in nodes {
        match n {
            TNode::Leaf { id, .. } => {
                *id = *next;
                *next += 1;
            }
            TNode::Branch { children, .. } => renumber(children, next),
        }
    }
}

/// Trees of depth <= 4 with <= 5 children per branch, default leaves and
/// branches, an occasional anonymous default leaf, numeric-suffix siblings and
/// common commands at the root.
/// A chain of `k` nested default branches ending in a default leaf, each level
/// with one ordinary sibling leaf: `HEAD[:D1][:D2]...[:Dk][:LEAF]`.
fn default_chain(k: usize, anonymous_end: bool) -> Spec {
    let names = ["CHANnel", "STAGe", "FILTer", "LEVel", "IMMediate", "AMPLitude", "RANGe", "UPPer", "AUTO"];
    let mut node = Spec { name: if anonymous_end { "ENDLeaf".to_string() } else { "VALue".to_string() }, kind: 0, want_default: true, sub: vec![] };
    for i in (0..k).rev() {
        let sibling = Spec { name: format!("SIB{i}"), kind: 0, want_default: false, sub: vec![] };
        node = Spec { name: names[i % names.len()].to_string(), kind: 1, want_default: true, sub: vec![node, sibling] };
    }
    Spec { name: "OUTPut".to_string(), kind: 1, want_default: false, sub: vec![node, Spec { name: "OTHer".to_string(), kind: 0, want_default: false, sub: vec![] }] }
}

/// A sub-tree that was built as a stand-alone root (`Node::root(..)` / `Root![..]`: an unnamed,
/// non-default branch) and then mounted inside another tree. Nothing below it can be addressed:
/// it has no name and it is not optional. Its children re-use names of the host level (and a
/// default leaf), so that any leak through it shows as a wrong handler.
fn embed_foreign_root(mut t: Tree, at_root: bool, first: bool) -> Tree {
    let mut next_id = 10_000;
    let host: &mut Vec<TNode> = if at_root {
        &mut t.root
    } else {
        match t.root.iter_mut().find(|n| n.is_branch()) {
            Some(TNode::Branch { children, .. }) => children,
            _ => &mut t.root,
        }
    };
    let mut inner: Vec<TNode> = host.iter().filter(|n| !n.name().is_empty() && !n.name().starts_with('*')).take(2).map(|n| TNode::Leaf { name: n.name().to_string(), default: false, id: { next_id += 1; next_id } }).collect();
    inner.push(TNode::Leaf { name: "HIDDen".to_string(), default: true, id: { next_id += 1; next_id } });
    let foreign = TNode::Branch { name: String::new(), default: false, children: inner };
    if first {
        host.insert(0, foreign);
    } else {
        host.push(foreign);
    }
    let mut n = 0;
    renumber(&mut t.root, &mut n);
    t.leaves = count_leaves(&t.root);
    t
}

pub fn tree_strategy() -> impl Strategy<Value = Tree> {
    prop_oneof![18 => tree_strategy_grafted().boxed(), 1 => (tree_strategy_grafted(), any::<bool>(), any::<bool>()).prop_map(|(t, at_root, first)| embed_foreign_root(t, at_root, first)).boxed()]
}

fn tree_strategy_grafted() -> impl Strategy<Value = Tree> {
    prop_oneof![9 => tree_strategy_plain().boxed(), 1 => (tree_strategy_plain(), 2usize..9, any::<bool>()).prop_map(|(mut t, k, anon)| {
        // graft a deep default chain onto a generated tree
        let mut next_id = t.leaves;
        let grafted = build(vec![default_chain(k, anon)], &mut next_id, false);
        for g in grafted {
            if !t.root.iter().any(|n| conflict(n.name(), g.name())) {
                t.root.push(g);
            }
        }
        let mut n = 0;
        renumber(&mut t.root, &mut n);
        t.leaves = count_leaves(&t.root);
        t
    }).boxed()]
}

fn tree_strategy_plain() -> impl Strategy<Value = Tree> {
    (prop_oneof![8 => proptest::collection::vec(spec_strategy(3), 1..6), 1 => proptest::collection::vec(spec_strategy(5), 1..4), 1 => proptest::collection::vec(spec_strategy(1), 6..12)], proptest::collection::vec("[A-Z]{2,4}", 0..3), proptest::collection::vec((0usize..64, prop_oneof![Just("2"), Just("3"), Just("10")]), 0..3)).prop_map(|(mut specs, commons, siblings)| {
        // numeric-suffix siblings: the alphabetic part of an existing node with another suffix
        for (pick, sfx) in siblings {
            add_sibling(&mut specs, pick, sfx);
        }
        let mut next_id = 0;
        let mut root = build(specs, &mut next_id, false);
        // the root itself has no default children in the generated trees' top level? keep them: allowed by the library
        for c in commons {
            let name = format!("*{c}");
            if !root.iter().any(|n| conflict(n.name(), &name)) {
                root.push(TNode::Leaf { name, default: false, id: 0 });
            }
        }
        let mut n = 0;
        renumber(&mut root, &mut n);
        Tree { leaves: count_leaves(&root), root }
    })
}

/// A realised tree: the real `Node` plus everything that was leaked to build
/// it, reclaimed on drop.
pub struct Realized {
    pub root: Node<'static, LogDev>,
    names: Vec<*mut [u8]>,
    subs: Vec<*mut [Node<'static, LogDev>]>,
    recs: Vec<*mut Rec>,
}

impl Realized {
    fn leak_name(&mut self, s: &str) -> &'static [u8] {
        let p = Box::into_raw(s.as_bytes().to_vec().into_boxed_slice());
        self.names.push(p);
        // SAFETY: freed only in Drop, after `root` (which borrows it) is gone
        unsafe { &*p }
    }
    fn node(&mut self, n: &TNode) -> Node<'static, LogDev> {
        match n {
            TNode::Leaf { name, default, id } => {
                let r = Box::into_raw(Box::new(Rec { id: *id }));
                self.recs.push(r);
                // SAFETY: as above
                Node::Leaf { name: self.leak_name(name), default: *default, handler: unsafe { &*r } }
            }
            TNode::Branch { name, default, children } => {
                let sub = self.slice(children);
                Node::Branch { name: self.leak_name(name), default: *default, sub }
            }
        }
    }
    fn slice(&mut self, children: &[TNode]) -> &'static [Node<'static, LogDev>] {
        let v: Vec<Node<'static, LogDev>> = children.iter().map(|c| self.node(c)).collect();
        let p = Box::into_raw(v.into_boxed_slice());
        self.subs.push(p);
        // SAFETY: as above
        unsafe { &*p }
    }
}

impl Drop for Realized {
    fn drop(&mut self) {
        // replace the root by an empty node first so that nothing borrows the storage
        self.root = Node::Branch { name: b"", default: false, sub: &[] };
        // SAFETY: every pointer came from Box::into_raw in this struct and is freed once
        unsafe {
            for p in self.subs.drain(..).rev() {
                drop(Box::from_raw(p));
            }
            for p in self.recs.drain(..) {
                drop(Box::from_raw(p));
            }
            for p in self.names.drain(..) {
                drop(Box::from_raw(p));
            }
        }
    }
}

/// Build the real command tree of a model.
pub fn realize(t: &Tree) -> Realized {
    let mut r = Realized { root: Node::Branch { name: b"", default: false, sub: &[] }, names: Vec::new(), subs: Vec::new(), recs: Vec::new() };
    let sub = r.slice(&t.root);
    r.root = Node::Branch { name: b"", default: false, sub };
    r
}

#[cfg(test)]
mod tests {
    use super::*;
    #[test]
    fn conflicts() {
        assert!(conflict("OUTPut", "OUTPut1"));
        assert!(!conflict("OUTPut1", "OUTPut2"));
        assert!(conflict("OUTP", "OUTPut"));
        assert!(!conflict("OUTPA", "OUTPut"));
        assert!(!conflict("", "A"));
        assert!(!conflict("*A", "A"));
    }
}
