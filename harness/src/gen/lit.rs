//! Decimal literal generators: every NR1/NR2/NR3 spelling of a value given as
//! (sign, digit string, number of fraction digits).
use proptest::prelude::*;

#[derive(Clone, Debug)]
pub struct Style {
    pub plus: bool,
    pub lead_zeros: u8,
    pub trail_zeros: u8,
    /// exponent shift (mantissa is divided by 10^shift), only written when != 0 or force_exp
    pub exp_shift: i32,
    pub force_exp: bool,
    pub exp_upper: bool,
    pub exp_plus: bool,
    pub exp_lead_zeros: u8,
    /// when the fraction is empty: 0 = "5", 1 = "5.", 2 = "5.0"
    pub dot_mode: u8,
    /// when the integer part is empty: false = ".5", true = "0.5"
    pub zero_int: bool,
}

impl Style {
    pub fn plain() -> Style {
        Style {
            plus: false,
            lead_zeros: 0,
            trail_zeros: 0,
            exp_shift: 0,
            force_exp: false,
            exp_upper: false,
            exp_plus: false,
            exp_lead_zeros: 0,
            dot_mode: 0,
            zero_int: true,
        }
    }
}

pub fn style_strategy(max_shift: i32) -> impl Strategy<Value = Style> {
    (
        prop_oneof![4 => Just(false), 1 => Just(true)],
        prop_oneof![6 => Just(0u8), 1 => 1u8..4],
        prop_oneof![6 => Just(0u8), 1 => 1u8..4],
        prop_oneof![5 => Just(0i32), 3 => -max_shift..=max_shift],
        prop_oneof![5 => Just(false), 1 => Just(true)],
        any::<bool>(),
        any::<bool>(),
        // leading zeros of the exponent: none, a few, and enough to push the exponent field past
        // 10 / 20 characters (a field-width shortcut must count significant digits, not characters)
        prop_oneof![12 => Just(0u8), 2 => 1u8..3, 1 => prop::sample::select(vec![8u8, 9, 10, 11, 12, 19, 20, 21, 40])],
        0u8..3,
        any::<bool>(),
    )
        .prop_map(|(plus, lead_zeros, trail_zeros, exp_shift, force_exp, exp_upper, exp_plus, exp_lead_zeros, dot_mode, zero_int)| Style {
            plus,
            lead_zeros,
            trail_zeros,
            exp_shift,
            force_exp,
            exp_upper,
            exp_plus,
            exp_lead_zeros,
            dot_mode,
            zero_int,
        })
}

/// Render `(-1)^neg * digits * 10^-scale` in the given spelling. `digits` is a
/// non-empty ASCII digit string.
pub fn render(neg: bool, digits: &str, scale: u32, st: &Style) -> String {
    debug_assert!(!digits.is_empty() && digits.bytes().all(|c| c.is_ascii_digit()));
    let mut digits = digits.to_string();
    let mut new_scale = scale as i64 + st.exp_shift as i64;
    if new_scale < 0 {
        digits.push_str(&"0".repeat((-new_scale) as usize));
        new_scale = 0;
    }
    let ns = new_scale as usize;
    let (mut int, mut frac) = if ns == 0 {
        (digits.clone(), String::new())
    } else if ns >= digits.len() {
        (String::new(), format!("{}{}", "0".repeat(ns - digits.len()), digits))
    } else {
        (digits[..digits.len() - ns].to_string(), digits[digits.len() - ns..].to_string())
    };
    let mut out = String::new();
    if neg {
        out.push('-');
    } else if st.plus {
        out.push('+');
    }
    if int.is_empty() && (st.zero_int || frac.is_empty()) {
        int.push('0');
    }
    if !int.is_empty() {
        out.push_str(&"0".repeat(st.lead_zeros as usize));
    }
    out.push_str(&int);
    if frac.is_empty() {
        match st.dot_mode {
            0 => {}
            1 => {
                if !int.is_empty() {
                    out.push('.')
                }
            }
            _ => {
                frac.push('0');
            }
        }
    }
    if !frac.is_empty() {
        out.push('.');
        out.push_str(&frac);
        out.push_str(&"0".repeat(st.trail_zeros as usize));
    }
    if st.exp_shift != 0 || st.force_exp {
        out.push(if st.exp_upper { 'E' } else { 'e' });
        if st.exp_shift < 0 {
            out.push('-');
        } else if st.exp_plus {
            out.push('+');
        }
        out.push_str(&"0".repeat(st.exp_lead_zeros as usize));
        out.push_str(&st.exp_shift.abs().to_string());
    }
    out
}

/// Fraction digit strings that sit on, just below and just above one half,
/// plus .4 / .6 / nothing / zeros.
pub fn frac_strategy() -> impl Strategy<Value = String> {
    prop_oneof![
        3 => Just(String::new()),
        2 => Just("0".to_string()),
        4 => Just("5".to_string()),
        2 => Just("4".to_string()),
        2 => Just("6".to_string()),
        2 => Just("49".to_string()),
        2 => Just("51".to_string()),
        1 => Just("4999999".to_string()),
        1 => Just("5000001".to_string()),
        1 => Just("49999999999999999999".to_string()),
        1 => Just("50000000000000000001".to_string()),
        1 => Just("500000000000000000000000000000000000".to_string()),
        1 => Just("499999999999999999999999999999999999".to_string()),
        // the double / single just below one half
        2 => Just("49999999999999994".to_string()),
        1 => Just("49999997".to_string()),
        1 => Just("4999999999999999".to_string()),
        1 => Just("000000000000000000001".to_string()),
        1 => Just("999999999999999999999".to_string()),
        3 => "[0-9]{1,20}",
    ]
}

/// A literal around the integer `n`: |n| + 0.frac with the sign of `n`
/// (or an explicit minus for n = 0 when `neg_zero`).
pub fn around_int(n: i128, neg_zero: bool, frac: &str, st: &Style) -> String {
    let neg = n < 0 || (n == 0 && neg_zero);
    let digits = format!("{}{}", n.unsigned_abs(), frac);
    render(neg, &digits, frac.len() as u32, st)
}

/// Completely random literal: 1..40 significant digits, exponent in a wide range.
pub fn wide_literal() -> impl Strategy<Value = String> {
    (any::<bool>(), "[0-9]{1,40}", 0u32..40, -420i32..420, style_strategy(0)).prop_map(|(neg, digits, scale, exp, mut st)| {
        st.exp_shift = exp;
        render(neg, &digits, scale.min(digits.len() as u32 + 5), &st)
    })
}

/// Literals whose exponent field is at or beyond the limits of 32- and 64-bit
/// exponent arithmetic (the value is 0, tiny, huge, or - with a matching
/// mantissa shift - perfectly ordinary).
pub fn extreme_exponent_literal() -> impl Strategy<Value = String> {
    let exps = vec!["2147483647", "2147483648", "-2147483648", "-2147483649", "4294967296", "-4294967297", "9223372036854775807", "9223372036854775808", "-9223372036854775808", "-9223372036854775809", "18446744073709551616", "99999999999999999999", "-99999999999999999999", "400", "-400", "39", "-46", "309", "-325"];
    (any::<bool>(), prop_oneof![2 => Just("0".to_string()), 2 => Just("0.000".to_string()), 1 => Just(".0".to_string()), 4 => "[1-9][0-9]{0,4}", 2 => "[0-9]{1,3}\\.[0-9]{1,3}"], proptest::sample::select(exps), any::<bool>(), any::<bool>()).prop_map(|(neg, mant, exp, upper, plus)| {
        let plus = if plus && !exp.starts_with('-') { "+" } else { "" };
        format!("{}{mant}{}{plus}{exp}", if neg { "-" } else { "" }, if upper { 'E' } else { 'e' })
    })
}

/// An ordinary value written with a huge exponent that the mantissa compensates:
/// `0.{k zeros}d e(k+n)` and `d{k zeros} e-k`, k up to 70000 (beyond the 32000 that
/// 488.2 gives as the exponent limit of devices, and beyond 16-bit counts).
pub fn compensated_exponent_literal() -> impl Strategy<Value = String> {
    let ks = vec![1usize, 2, 19, 20, 39, 40, 308, 309, 310, 324, 325, 400, 1000, 4095, 4096, 31_999, 32_000, 32_001, 32_767, 32_768, 40_000, 65_535, 65_536, 70_000];
    (any::<bool>(), "[1-9][0-9]{0,4}", proptest::sample::select(ks), any::<bool>(), any::<bool>(), 0usize..3).prop_map(|(neg, d, k, small_side, upper, extra)| {
        let e = if upper { 'E' } else { 'e' };
        let sign = if neg { "-" } else { "" };
        if small_side {
            // 0.000...0d x 10^(k + extra): the value is d x 10^(extra - len(d))
            format!("{sign}0.{}{d}{e}{}", "0".repeat(k), k + extra)
        } else {
            // d000...0 x 10^-k, also with a decimal point (and a fraction) after the long integer part
            let point = ["", ".", ".0", ".000", ".5", ".25"][(k + extra * 7 + d.len()) % 6];
            format!("{sign}{d}{}{point}{e}-{}", "0".repeat(k), k)
        }
    })
}

/// Spellings of zero.
pub fn zero_literal() -> impl Strategy<Value = String> {
    (any::<bool>(), prop_oneof![Just("0"), Just("00"), Just("000000")], 0u32..4, style_strategy(30)).prop_map(|(neg, digits, scale, st)| render(neg, digits, scale, &st))
}

#[cfg(test)]
mod tests {
    use super::*;
    #[test]
    fn spellings() {
        let mut st = Style::plain();
        assert_eq!(render(false, "25", 1, &st), "2.5");
        st.exp_shift = 1;
        assert_eq!(render(false, "25", 1, &st), "0.25e1");
        st.zero_int = false;
        assert_eq!(render(true, "25", 1, &st), "-.25e1");
        st.exp_shift = -2;
        st.exp_upper = true;
        assert_eq!(render(false, "25", 1, &st), "250E-2");
        st.exp_shift = 0;
        st.dot_mode = 1;
        assert_eq!(render(false, "7", 0, &st), "7.");
        st.dot_mode = 2;
        assert_eq!(render(false, "7", 0, &st), "7.0");
        assert_eq!(render(false, "0", 0, &st), "0.0");
        st.dot_mode = 0;
        assert_eq!(render(true, "0", 0, &st), "-0");
        assert_eq!(around_int(-128, false, "4", &Style::plain()), "-128.4");
        assert_eq!(around_int(0, true, "", &Style::plain()), "-0");
    }
}
