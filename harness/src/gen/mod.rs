//! Generators: proptest strategies and exhaustive enumerators.
pub mod enumstr;
pub mod lit;
pub mod msg;
#[cfg(feature = "full")]
pub mod plan;
#[cfg(feature = "full")]
pub mod tree;
