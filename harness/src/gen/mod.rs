//! Generators: proptest strategies and exhaustive enumerators.
pub mod enumstr;
pub mod lit;
pub mod msg;
pub mod plan;
pub mod tree;
