//! Program-message AST generated from the IEEE 488.2 section 7 grammar
//! (DESIGN 3.1). A message is rendered to bytes together with the *expected*
//! element sequence, which therefore does not depend on any lexer.
use crate::bytes::B;
use proptest::prelude::*;
use scpi::parser::tokenizer::Token;
use serde::{Deserialize, Serialize};

/// Owned mirror of the library's `Token`.
#[derive(Clone, Debug, PartialEq, Eq, Hash, Serialize, Deserialize)]
pub enum ETok {
    Colon,
    Query,
    UnitSep,
    HeaderSep,
    DataSep,
    Mnemonic(B),
    Chr(B),
    Dec(B),
    DecSuffix(B, B),
    NonDec(u64),
    Str(B),
    Block(B),
    Expr(B),
}

impl ETok {
    pub fn is_data(&self) -> bool {
        matches!(self, ETok::Chr(_) | ETok::Dec(_) | ETok::DecSuffix(..) | ETok::NonDec(_) | ETok::Str(_) | ETok::Block(_) | ETok::Expr(_))
    }
}

impl<'a> From<Token<'a>> for ETok {
    fn from(t: Token<'a>) -> Self {
        match t {
            Token::HeaderMnemonicSeparator => ETok::Colon,
            Token::HeaderQuerySuffix => ETok::Query,
            Token::ProgramMessageUnitSeparator => ETok::UnitSep,
            Token::ProgramHeaderSeparator => ETok::HeaderSep,
            Token::ProgramDataSeparator => ETok::DataSep,
            Token::ProgramMnemonic(s) => ETok::Mnemonic(s.into()),
            Token::CharacterProgramData(s) => ETok::Chr(s.into()),
            Token::DecimalNumericProgramData(s) => ETok::Dec(s.into()),
            Token::DecimalNumericSuffixProgramData(a, b) => ETok::DecSuffix(a.into(), b.into()),
            Token::NonDecimalNumericProgramData(v) => ETok::NonDec(v),
            Token::StringProgramData(s) => ETok::Str(s.into()),
            Token::ArbitraryBlockData(s) => ETok::Block(s.into()),
            Token::ExpressionProgramData(s) => ETok::Expr(s.into()),
        }
    }
}

#[derive(Clone, Debug, PartialEq, Eq, Hash, Serialize, Deserialize)]
pub enum Datum {
    Chr(B),
    /// decimal literal, optional (white space, suffix)
    Dec { lit: B, suffix: Option<(B, B)> },
    /// `#` radix-letter digits ; `value` is what the digits denote
    NonDec { radix: u8, digits: B, value: u64 },
    /// quote character and the raw content with the delimiter already doubled
    Str { quote: u8, raw: B },
    /// definite-length block (`digits_pad` extra leading zeros in the length field) or `#0` indefinite block
    Block { definite: bool, pad: u8, payload: B },
    Expr(B),
}

impl Datum {
    pub fn render(&self, out: &mut Vec<u8>) {
        match self {
            Datum::Chr(s) => out.extend_from_slice(s),
            Datum::Dec { lit, suffix } => {
                out.extend_from_slice(lit);
                if let Some((ws, sfx)) = suffix {
                    out.extend_from_slice(ws);
                    out.extend_from_slice(sfx);
                }
            }
            Datum::NonDec { radix, digits, .. } => {
                out.push(b'#');
                out.push(*radix);
                out.extend_from_slice(digits);
            }
            Datum::Str { quote, raw } => {
                out.push(*quote);
                out.extend_from_slice(raw);
                out.push(*quote);
            }
            Datum::Block { definite, pad, payload } => {
                if *definite {
                    let len = format!("{}{}", "0".repeat(*pad as usize), payload.len());
                    out.push(b'#');
                    out.push(b'0' + len.len() as u8);
                    out.extend_from_slice(len.as_bytes());
                    out.extend_from_slice(payload);
                } else {
                    out.extend_from_slice(b"#0");
                    out.extend_from_slice(payload);
                    // the terminating NL is the message ending
                }
            }
            Datum::Expr(s) => {
                out.push(b'(');
                out.extend_from_slice(s);
                out.push(b')');
            }
        }
    }
    pub fn expected(&self) -> ETok {
        match self {
            Datum::Chr(s) => ETok::Chr(s.clone()),
            Datum::Dec { lit, suffix: None } => ETok::Dec(lit.clone()),
            Datum::Dec { lit, suffix: Some((_, s)) } => ETok::DecSuffix(lit.clone(), s.clone()),
            Datum::NonDec { value, .. } => ETok::NonDec(*value),
            Datum::Str { raw, .. } => ETok::Str(raw.clone()),
            Datum::Block { payload, .. } => ETok::Block(payload.clone()),
            Datum::Expr(s) => ETok::Expr(s.clone()),
        }
    }
    pub fn kind_label(&self) -> &'static str {
        match self {
            Datum::Chr(_) => "datum: character",
            Datum::Dec { suffix: None, .. } => "datum: decimal",
            Datum::Dec { suffix: Some(_), .. } => "datum: decimal with suffix",
            Datum::NonDec { .. } => "datum: non-decimal",
            Datum::Str { .. } => "datum: string",
            Datum::Block { .. } => "datum: block",
            Datum::Expr(_) => "datum: expression",
        }
    }
    pub fn is_indefinite(&self) -> bool {
        matches!(self, Datum::Block { definite: false, .. })
    }
    /// does the payload contain a byte that is a separator outside of it?
    pub fn embeds_separator(&self) -> bool {
        let has = |s: &[u8]| s.iter().any(|c| matches!(c, b';' | b',' | b':' | b'\n' | b'"' | b'\'' | b'(' | b')' | b'#' | b'?' | b'*'));
        match self {
            Datum::Str { raw, .. } => has(raw),
            Datum::Block { payload, .. } => has(payload),
            Datum::Expr(s) => has(s),
            _ => false,
        }
    }
    pub fn has_len12(&self) -> bool {
        match self {
            Datum::Chr(s) => s.len() == 12,
            Datum::Dec { suffix: Some((_, s)), .. } => s.len() == 12,
            _ => false,
        }
    }
}

#[derive(Clone, Debug, PartialEq, Eq, Hash, Serialize, Deserialize)]
pub struct Header {
    /// common command (`*` + mnemonic); then `colon` is false and `path` has one element without the star
    pub common: bool,
    pub colon: bool,
    pub path: Vec<B>,
    pub query: bool,
}

impl Header {
    pub fn render(&self, out: &mut Vec<u8>) {
        if self.common {
            out.push(b'*');
        } else if self.colon {
            out.push(b':');
        }
        for (i, m) in self.path.iter().enumerate() {
            if i > 0 {
                out.push(b':');
            }
            out.extend_from_slice(m);
        }
        if self.query {
            out.push(b'?');
        }
    }
    pub fn expected(&self, out: &mut Vec<ETok>) {
        if self.common {
            let mut m = vec![b'*'];
            m.extend_from_slice(&self.path[0]);
            out.push(ETok::Mnemonic(m.into()));
        } else {
            if self.colon {
                out.push(ETok::Colon);
            }
            for (i, m) in self.path.iter().enumerate() {
                if i > 0 {
                    out.push(ETok::Colon);
                }
                out.push(ETok::Mnemonic(m.clone()));
            }
        }
        if self.query {
            out.push(ETok::Query);
        }
    }
}

#[derive(Clone, Debug, PartialEq, Eq, Hash, Serialize, Deserialize)]
pub struct Unit {
    pub header: Header,
    /// white space between header and data (non-empty iff there are data; may be non-empty without data)
    pub ws_header: B,
    pub data: Vec<Datum>,
    /// white space (before, after) each `,` — `data.len() - 1` entries
    pub ws_data: Vec<(B, B)>,
}

#[derive(Clone, Copy, Debug, PartialEq, Eq, Hash, Serialize, Deserialize)]
pub enum Ending {
    None,
    Nl,
    Ws,
    WsNl,
    Semi,
    SemiNl,
    SemiWs,
}

impl Ending {
    pub const ALL: [Ending; 7] = [Ending::None, Ending::Nl, Ending::Ws, Ending::WsNl, Ending::Semi, Ending::SemiNl, Ending::SemiWs];
    pub fn bytes(self) -> &'static [u8] {
        match self {
            Ending::None => b"",
            Ending::Nl => b"\n",
            Ending::Ws => b" ",
            Ending::WsNl => b" \n",
            Ending::Semi => b";",
            Ending::SemiNl => b";\n",
            Ending::SemiWs => b"; ",
        }
    }
}

#[derive(Clone, Debug, PartialEq, Eq, Hash, Serialize, Deserialize)]
pub struct Msg {
    pub lead_ws: B,
    pub units: Vec<Unit>,
    /// white space (before, after) each `;` between units — `units.len() - 1` entries
    pub ws_units: Vec<(B, B)>,
    pub ending: Ending,
}

/// Rendered message: bytes, expected tokens, and for every token the byte
/// offset at which its element starts (used by the corruption operators).
pub struct Rendered {
    pub bytes: Vec<u8>,
    pub tokens: Vec<ETok>,
    /// (unit index, start offset, end offset) of every data element, in order
    pub data_spans: Vec<(usize, usize, usize)>,
    /// (start, end) of every header mnemonic (without `*`, `:`)
    pub mnemonic_spans: Vec<(usize, usize)>,
    /// offset just after every unit's header (before white space / data)
    pub header_ends: Vec<usize>,
    /// token index at which every unit starts
    pub unit_token_start: Vec<usize>,
}

impl Msg {
    pub fn render(&self) -> Rendered {
        let mut b: Vec<u8> = Vec::new();
        let mut t: Vec<ETok> = Vec::new();
        let mut data_spans = Vec::new();
        let mut mnemonic_spans = Vec::new();
        let mut header_ends = Vec::new();
        let mut unit_token_start = Vec::new();
        b.extend_from_slice(&self.lead_ws);
        for (ui, u) in self.units.iter().enumerate() {
            if ui > 0 {
                let (before, after) = &self.ws_units[ui - 1];
                b.extend_from_slice(before);
                // white space directly after a header (no data, no header white space yet) is a header separator
                let prev = &self.units[ui - 1];
                if !before.is_empty() && prev.data.is_empty() && prev.ws_header.is_empty() {
                    t.push(ETok::HeaderSep);
                }
                b.push(b';');
                b.extend_from_slice(after);
                t.push(ETok::UnitSep);
            }
            unit_token_start.push(t.len());
            // header with spans
            let h = &u.header;
            if h.common {
                b.push(b'*');
            } else if h.colon {
                b.push(b':');
            }
            for (i, m) in h.path.iter().enumerate() {
                if i > 0 {
                    b.push(b':');
                }
                mnemonic_spans.push((b.len(), b.len() + m.len()));
                b.extend_from_slice(m);
            }
            if h.query {
                b.push(b'?');
            }
            h.expected(&mut t);
            header_ends.push(b.len());
            if !u.ws_header.is_empty() {
                b.extend_from_slice(&u.ws_header);
                // trailing white space before `;` after a header without data is still a header separator
                t.push(ETok::HeaderSep);
            }
            for (di, d) in u.data.iter().enumerate() {
                if di > 0 {
                    let (before, after) = &u.ws_data[di - 1];
                    b.extend_from_slice(before);
                    b.push(b',');
                    b.extend_from_slice(after);
                    t.push(ETok::DataSep);
                }
                let s = b.len();
                d.render(&mut b);
                data_spans.push((ui, s, b.len()));
                t.push(d.expected());
            }
        }
        b.extend_from_slice(self.ending.bytes());
        match self.ending {
            Ending::Semi | Ending::SemiNl | Ending::SemiWs => t.push(ETok::UnitSep),
            Ending::Ws | Ending::WsNl => {
                // white space directly after a header is a header separator; after data it is skipped
                let last = self.units.last().unwrap();
                if last.data.is_empty() && last.ws_header.is_empty() {
                    t.push(ETok::HeaderSep);
                }
            }
            _ => {}
        }
        Rendered { bytes: b, tokens: t, data_spans, mnemonic_spans, header_ends, unit_token_start }
    }

    pub fn has_indefinite_block(&self) -> bool {
        self.units.iter().any(|u| u.data.iter().any(|d| d.is_indefinite()))
    }
}

// ------------------------------------------------------------------ strategies

pub fn ws0() -> impl Strategy<Value = B> {
    prop_oneof![
        8 => Just(B(vec![])),
        3 => Just(B(b" ".to_vec())),
        1 => Just(B(b"\t".to_vec())),
        1 => Just(B(b"  ".to_vec())),
        1 => Just(B(b" \t ".to_vec())),
        1 => Just(B(b"\r".to_vec())),
        1 => Just(B(b"\x0c ".to_vec())),
    ]
}

pub fn ws1() -> impl Strategy<Value = B> {
    prop_oneof![
        8 => Just(B(b" ".to_vec())),
        2 => Just(B(b"\t".to_vec())),
        1 => Just(B(b"   ".to_vec())),
        1 => Just(B(b" \t".to_vec())),
        1 => Just(B(b"\r ".to_vec())),
    ]
}

/// A 488.2 program mnemonic: letter then letters / digits / underscore, with
/// lengths biased to 1, 11 and 12.
pub fn mnemonic() -> impl Strategy<Value = B> {
    prop_oneof![
        8 => "[A-Za-z][A-Za-z0-9_]{0,7}",
        1 => "[A-Za-z]",
        1 => "[A-Za-z][A-Za-z0-9_]{10}",
        2 => "[A-Za-z][A-Za-z0-9_]{11}",
    ]
    .prop_map(B::from)
}

pub fn free_header() -> impl Strategy<Value = Header> {
    prop_oneof![
        1 => (mnemonic(), any::<bool>()).prop_map(|(m, query)| Header { common: true, colon: false, path: vec![m], query }),
        4 => (any::<bool>(), proptest::collection::vec(mnemonic(), 1..4), any::<bool>()).prop_map(|(colon, path, query)| Header { common: false, colon, path, query }),
    ]
}

fn suffix_text() -> impl Strategy<Value = B> {
    // starts with a letter; an initial E/e must be followed by a letter so that
    // the text cannot be read as an exponent
    prop_oneof![
        6 => "[A-DF-Za-df-z][A-Za-z0-9./-]{0,5}",
        2 => "[Ee][A-Za-z][A-Za-z0-9./-]{0,4}",
        1 => "[A-DF-Za-df-z][A-Za-z0-9./-]{11}",
        1 => "[A-DF-Za-df-z]",
    ]
    .prop_map(B::from)
}

pub fn decimal_literal() -> impl Strategy<Value = B> {
    prop_oneof![
        4 => crate::gen::lit::wide_literal(),
        3 => (any::<bool>(), "[0-9]{1,6}", 0u32..4, crate::gen::lit::style_strategy(9)).prop_map(|(neg, d, scale, st)| crate::gen::lit::render(neg, &d, scale.min(d.len() as u32), &st)),
        1 => crate::gen::lit::zero_literal(),
    ]
    .prop_map(B::from)
}

pub fn datum(allow_indefinite: bool) -> BoxedStrategy<Datum> {
    let payload = || {
        prop_oneof![
            160 => proptest::collection::vec(any::<u8>(), 0..20),
            80 => "[;,:\"'()#\\n\\r\\t a-z]{0,16}".prop_map(String::into_bytes),
            // payloads ending in a white-space-like byte
            20 => ("[a-z0-9]{0,6}", prop::sample::select(vec![b'\r', b'\n', b' ', b'\t', 0x0c, 0u8, b';', b',']), 1usize..3).prop_map(|(s, c, n)| { let mut v = s.into_bytes(); for _ in 0..n { v.push(c); } v }),
            40 => (prop_oneof![Just(9usize), Just(10), Just(99), Just(100), Just(101), Just(255), Just(256), Just(257), Just(300)], any::<u8>()).prop_map(|(n, a)| (0..n).map(|i| a.wrapping_add((i * 31) as u8)).collect()),
            // rarely a really long payload
            1 => (prop_oneof![Just(999usize), Just(1000), Just(4096), Just(65536)], any::<u8>()).prop_map(|(n, a)| (0..n).map(|i| a.wrapping_add((i * 31) as u8)).collect()),
        ]
    };
    let mut v: Vec<(u32, BoxedStrategy<Datum>)> = vec![
        (3, prop_oneof![
            6 => "[A-Za-z][A-Za-z0-9_]{0,7}",
            1 => "[A-Za-z]",
            2 => "[A-Za-z][A-Za-z0-9_]{11}",
        ].prop_map(|s| Datum::Chr(s.into())).boxed()),
        (3, decimal_literal().prop_map(|lit| Datum::Dec { lit, suffix: None }).boxed()),
        (3, (decimal_literal(), ws0(), suffix_text()).prop_map(|(lit, ws, sfx)| {
            // a suffix glued to the number must not start with E/e (exponent ambiguity)
            let ws = if ws.is_empty() && matches!(sfx.first(), Some(b'E') | Some(b'e')) { B(b" ".to_vec()) } else { ws };
            Datum::Dec { lit, suffix: Some((ws, sfx)) }
        }).boxed()),
        (3, (prop_oneof![Just(b'H'), Just(b'h'), Just(b'Q'), Just(b'q'), Just(b'B'), Just(b'b')], prop_oneof![any::<u64>(), 0u64..300, Just(u64::MAX)], prop_oneof![12 => 0usize..3, 2 => 3usize..70, 1 => prop::sample::select(vec![190usize, 240, 250, 255, 256, 257, 300, 520])], any::<bool>()).prop_map(|(radix, value, zeros, lower)| {
            let mut digits = match radix.to_ascii_uppercase() {
                b'H' => format!("{value:X}"),
                b'Q' => format!("{value:o}"),
                _ => format!("{value:b}"),
            };
            if lower {
                digits.make_ascii_lowercase();
            }
            // leading zeros do not change the value, whatever their number
            let digits = format!("{}{digits}", "0".repeat(zeros));
            Datum::NonDec { radix, digits: digits.into(), value }
        }).boxed()),
        (3, (any::<bool>(), prop_oneof![
            3 => proptest::collection::vec(0u8..128, 0..16),
            3 => "[;,:\"'()#\\n a-z]{0,12}".prop_map(String::into_bytes),
        ]).prop_map(|(dq, content)| {
            let q = if dq { b'"' } else { b'\'' };
            let mut raw = Vec::with_capacity(content.len() + 2);
            for c in content {
                raw.push(c);
                if c == q {
                    raw.push(c);
                }
            }
            Datum::Str { quote: q, raw: raw.into() }
        }).boxed()),
        (3, (payload(), prop_oneof![4 => Just(0u8), 1 => 1u8..3]).prop_map(|(p, pad)| Datum::Block { definite: true, pad, payload: p.into() }).boxed()),
        (3, "[ !$-&*-:<-~]{0,16}".prop_map(|s| Datum::Expr(s.into())).boxed()),
    ];
    if allow_indefinite {
        v.push((1, payload().prop_map(|p| Datum::Block { definite: false, pad: 0, payload: p.into() }).boxed()));
    }
    proptest::strategy::Union::new_weighted(v).boxed()
}

/// A unit with a free-form header and 0..max_data data of every kind. The
/// indefinite block may only be the very last element of a message; `last`
/// says whether this unit is the last one.
pub fn unit_with(header: BoxedStrategy<Header>, max_data: usize, allow_indefinite: bool) -> BoxedStrategy<Unit> {
    // mostly 0..=max_data data elements; now and then a long parameter list
    let data = prop_oneof![
        480 => proptest::collection::vec(datum(false), 0..=max_data),
        19 => proptest::collection::vec(datum(false), max_data + 3..=max_data * 4 + 4),
        // counters that wrap at 256: a very long list of short elements
        1 => (prop::sample::select(vec![255usize, 256, 257, 258, 300]), 0u8..3).prop_map(|(n, k)| (0..n).map(|i| match k {
            0 => Datum::Dec { lit: B((i % 10).to_string().into_bytes()), suffix: None },
            1 => Datum::Chr(B(b"X".to_vec())),
            _ => Datum::Str { quote: b'\'', raw: B(vec![b'a' + (i % 26) as u8]) },
        }).collect::<Vec<_>>()),
    ];
    (header, data, if allow_indefinite { prop_oneof![6 => Just(None), 1 => datum(true).prop_map(Some)].boxed() } else { Just(None).boxed() }, ws1(), ws0(), proptest::collection::vec((ws0(), ws0()), max_data * 4 + 6), any::<bool>())
        .prop_map(|(header, mut data, tail, ws_header, ws_nodata, mut ws_data, _)| {

            if let Some(t) = tail {
                if t.is_indefinite() {
                    data.push(t);
                }
            }
            let n = data.len();
            while ws_data.len() + 1 < n {
                ws_data.push((B::default(), B::default()));
            }
            Unit { header, ws_header: if n > 0 { ws_header } else { ws_nodata }, ws_data: ws_data.into_iter().take(n.saturating_sub(1)).collect(), data }
        })
        .boxed()
}

/// A whole message of 1..=max_units units with free-form headers.
pub fn free_message(max_units: usize, max_data: usize, lead_ws: bool, indefinite: bool) -> BoxedStrategy<Msg> {
    message_with(free_header().boxed(), max_units, max_data, lead_ws, indefinite)
}

/// A message whose unit headers come from `header`.
pub fn message_with(header: BoxedStrategy<Header>, max_units: usize, max_data: usize, lead_ws: bool, indefinite: bool) -> BoxedStrategy<Msg> {
    // mostly 1..=max_units units; now and then a long message (N-th unit effects, counters)
    let inner_unit = unit_with(header.clone(), max_data, false);
    let last_unit = unit_with(header, max_data, true);
    prop_oneof![380 => (1..=max_units).boxed(), 19 => (max_units + 4..=max_units * 4 + 4).boxed(), 1 => prop::sample::select(vec![255usize, 256, 257, 258, 300]).boxed()]
        .prop_flat_map(move |n| {
            // (the two unit strategies are built once, not per case: constructing them is expensive)
            let mut units: Vec<BoxedStrategy<Unit>> = Vec::new();
            for i in 0..n {
                units.push(if indefinite && i + 1 == n { last_unit.clone() } else { inner_unit.clone() });
            }
            (units, proptest::collection::vec((ws0(), ws0()), n - 1), 0usize..7, if lead_ws { ws0().boxed() } else { Just(B(vec![])).boxed() })
        })
        .prop_map(|(units, ws_units, e, lead_ws)| finish_message(lead_ws, units, ws_units, Ending::ALL[e]))
        .boxed()
}

/// Apply the constraints between the parts: an indefinite block forces the NL
/// ending; white space must not separate a header from `?`.
pub fn finish_message(lead_ws: B, units: Vec<Unit>, ws_units: Vec<(B, B)>, ending: Ending) -> Msg {
    let mut m = Msg { lead_ws, units, ws_units, ending };
    if m.has_indefinite_block() {
        m.ending = Ending::Nl;
    }
    m
}

#[cfg(test)]
mod tests {
    use super::*;
    #[test]
    fn render_simple() {
        let m = Msg {
            lead_ws: B(vec![]),
            units: vec![
                Unit { header: Header { common: true, colon: false, path: vec!["IDN".into()], query: true }, ws_header: B(vec![]), data: vec![], ws_data: vec![] },
                Unit {
                    header: Header { common: false, colon: true, path: vec!["A".into(), "B".into()], query: false },
                    ws_header: " ".into(),
                    data: vec![Datum::Dec { lit: "1.5".into(), suffix: Some(("".into(), "V".into())) }, Datum::Str { quote: b'\'', raw: "a''b".into() }],
                    ws_data: vec![(" ".into(), "".into())],
                },
            ],
            ws_units: vec![("".into(), " ".into())],
            ending: Ending::Nl,
        };
        let r = m.render();
        assert_eq!(r.bytes, b"*IDN?; :A:B 1.5V ,'a''b'\n");
        assert_eq!(
            r.tokens,
            vec![
                ETok::Mnemonic("*IDN".into()),
                ETok::Query,
                ETok::UnitSep,
                ETok::Colon,
                ETok::Mnemonic("A".into()),
                ETok::Colon,
                ETok::Mnemonic("B".into()),
                ETok::HeaderSep,
                ETok::DecSuffix("1.5".into(), "V".into()),
                ETok::DataSep,
                ETok::Str("a''b".into())
            ]
        );
    }
}
