//! Strategies for handler plans.
use crate::bytes::B;
use crate::gen::msg::{Datum, Msg};
use crate::rec::{ErrSpec, Pull, PullAs, RespDatum, UnitPlan};
use proptest::prelude::*;

pub fn resp_datum() -> impl Strategy<Value = RespDatum> {
    prop_oneof![
        // a device-defined composite type (parts joined with Formatter::data_separator) and an Error as data
        14 => simple_datum(),
        1 => proptest::collection::vec(prop_oneof![6 => simple_datum(), 1 => err_spec().prop_map(RespDatum::Err)], 1..5).prop_map(|mut v| {
            v.retain(|d| d.is_simple());
            if v.is_empty() {
                v.push(RespDatum::U8(0));
            }
            RespDatum::Composite(v)
        }),
        1 => err_spec().prop_map(RespDatum::Err),
    ]
}

fn simple_datum() -> impl Strategy<Value = RespDatum> {
    prop_oneof![
        3 => prop_oneof![any::<i32>(), -10i32..10, Just(i32::MIN), Just(i32::MAX)].prop_map(RespDatum::I32),
        1 => any::<u8>().prop_map(RespDatum::U8),
        1 => prop_oneof![any::<u64>(), Just(u64::MAX)].prop_map(RespDatum::U64),
        1 => any::<bool>().prop_map(RespDatum::Bool),
        3 => prop_oneof![
            4 => proptest::collection::vec(0u8..128, 0..12),
            4 => "[a-z\";, \\n]{0,10}".prop_map(String::into_bytes),
            // long strings with quotes at arbitrary offsets (chunked escaping, 64 / 128 / 256 byte boundaries)
            1 => (56usize..140, proptest::collection::vec(0usize..140, 0..4)).prop_map(|(n, qs)| { let mut v = vec![b'a'; n]; for q in qs { if q < n { v[q] = b'"'; } } v }),
        ].prop_map(|v| RespDatum::Str(B(v))),
        2 => prop_oneof![
            3 => proptest::collection::vec(any::<u8>(), 0..14),
            1 => (prop_oneof![Just(9usize), Just(10), Just(11), Just(99), Just(100)], any::<u8>()).prop_map(|(n, a)| (0..n).map(|i| a.wrapping_add(i as u8)).collect()),
            1 => "[;,\\n\"]{0,6}".prop_map(String::into_bytes),
        ].prop_map(|v| RespDatum::Block(B(v))),
        2 => "[A-Za-z][A-Za-z0-9_]{0,11}".prop_map(|s| RespDatum::Chr(s.into())),
        1 => "[ !$-&*-:<-~]{0,10}".prop_map(|s| RespDatum::Expr(s.into())),
        // a list handed over as one datum; items may have an empty text (an unset label)
        1 => proptest::collection::vec(prop_oneof![2 => Just(String::new()), 3 => "[A-Z][A-Za-z0-9_]{0,5}"], 1..=8).prop_map(|mut v| {
            // a list of one empty item would make a response unit without any text: whether that counts as
            // "a query produced output" is not something the property settles, so it is not generated
            if v.len() == 1 && v[0].is_empty() { v[0] = "A".into(); }
            RespDatum::ChrList(v.into_iter().map(B::from).collect())
        }),
    ]
}

/// Response part of a plan: 0..2 headers and 1..5 data.
pub fn response() -> impl Strategy<Value = (Vec<B>, Vec<RespDatum>)> {
    (
        // response header mnemonics; now and then the first one is a common command header (`*ESE 32` in a learn string)
        (proptest::collection::vec(prop_oneof![4 => "[A-Z][A-Za-z0-9]{0,5}", 1 => "[A-Z][A-Za-z0-9]{6,11}"].prop_map(B::from), 0..4), prop_oneof![9 => Just(false), 1 => Just(true)]).prop_map(|(mut h, star)| {
            if star && !h.is_empty() {
                let mut first = b"*".to_vec();
                first.extend_from_slice(&h[0]);
                h[0] = B(first);
            }
            h
        }),
        prop_oneof![
            300 => proptest::collection::vec(resp_datum(), 1..6),
            10 => proptest::collection::vec(resp_datum(), 6..24),
            // more than 255 data elements in one response unit
            1 => (prop::sample::select(vec![255usize, 256, 257, 258, 300, 513]), any::<u8>()).prop_map(|(n, a)| (0..n).map(|i| RespDatum::U8(a.wrapping_add(i as u8))).collect::<Vec<_>>()),
        ],
    )
}

/// Whether (and after how many data) the handler calls `finish()` an extra time, ignoring the result.
pub fn mid_finish() -> impl Strategy<Value = Option<u8>> {
    prop_oneof![3 => Just(None), 1 => (0u8..6).prop_map(Some)]
}

/// A plan per unit that consumes exactly the unit's data (greedy) and, for
/// queries, responds with generated data: the message succeeds by construction.
pub fn succeeding_plans(msg: &Msg) -> BoxedStrategy<Vec<UnitPlan>> {
    let n = msg.units.len();
    proptest::collection::vec((response(), mid_finish()), n)
        .prop_map(|rs| rs.into_iter().map(|((headers, respond), mid_finish)| UnitPlan { pulls: vec![], greedy: true, headers, respond, fail: None, swallow: false, mid_finish }).collect())
        .boxed()
}

pub fn err_spec() -> impl Strategy<Value = ErrSpec> {
    prop_oneof![
        // standard codes of every class
        4 => (prop_oneof![Just(-100i16), Just(-101), Just(-108), Just(-109), Just(-113), Just(-200), Just(-221), Just(-222), Just(-224), Just(-240), Just(-300), Just(-310), Just(-350), Just(-400), Just(-410), Just(-500), Just(-600), Just(-700), Just(-800), Just(-225), Just(0)], any::<bool>())
            .prop_map(|(code, extended)| ErrSpec { code, custom: false, extended }),
        2 => (any::<i16>(), any::<bool>()).prop_map(|(code, extended)| ErrSpec { code, custom: true, extended }),
        1 => (1i16..1000, any::<bool>()).prop_map(|(code, extended)| ErrSpec { code, custom: true, extended }),
    ]
}

/// Raw / typed pulls for one unit: `m` pulls, each required or optional. For a
/// position that holds a plain decimal or a string the typed `next_data` forms
/// are used as well (their result is predictable); beyond the supplied data
/// any form may be used.
pub fn pulls_for(data: &[Datum], m: usize) -> BoxedStrategy<Vec<Pull>> {
    let kinds: Vec<u8> = (0..m)
        .map(|k| match data.get(k) {
            Some(Datum::Dec { suffix: None, .. }) => 1,
            Some(Datum::Str { .. }) => 2,
            Some(_) => 0,
            None => 3,
        })
        .collect();
    (proptest::collection::vec((any::<bool>(), 0u8..4), m))
        .prop_map(move |v| {
            v.into_iter()
                .zip(kinds.iter())
                .map(|((optional, pick), kind)| {
                    let as_ = match (kind, pick) {
                        (1, 0) | (1, 1) => PullAs::DataF64,
                        (2, 0) | (2, 1) => PullAs::DataBytes,
                        // a typed pull on an element of another kind (number as bytes, string as integer, ...)
                        (1, 2) => PullAs::DataBytes,
                        (2, 2) => PullAs::DataI32,
                        (0, 0) => PullAs::DataBytes,
                        (3, 0) => PullAs::DataI32,
                        (3, 1) => PullAs::DataBool,
                        (3, 2) => PullAs::DataBytes,
                        _ => PullAs::Raw,
                    };
                    Pull { optional, as_ }
                })
                .collect()
        })
        .boxed()
}
