//! Exhaustive enumeration of all strings over a small alphabet.

/// Call `f` with every string over `alpha` of length 0..=max_len (shortest
/// first, odometer order). Stops when `f` returns false.
pub fn for_all_strings(alpha: &[u8], max_len: usize, f: &mut dyn FnMut(&[u8]) -> bool) -> bool {
    for_all_with_prefix(alpha, &[], max_len, f)
}

/// Every string `prefix ++ tail` with `tail` of length 0..=max_tail.
pub fn for_all_with_prefix(
    alpha: &[u8],
    prefix: &[u8],
    max_tail: usize,
    f: &mut dyn FnMut(&[u8]) -> bool,
) -> bool {
    let pl = prefix.len();
    for len in 0..=max_tail {
        let mut idx = vec![0usize; len];
        let mut buf = prefix.to_vec();
        buf.resize(pl + len, alpha[0]);
        'outer: loop {
            if !f(&buf) {
                return false;
            }
            let mut p = len;
            loop {
                if p == 0 {
                    break 'outer;
                }
                p -= 1;
                idx[p] += 1;
                if idx[p] < alpha.len() {
                    buf[pl + p] = alpha[idx[p]];
                    break;
                }
                idx[p] = 0;
                buf[pl + p] = alpha[0];
            }
        }
    }
    true
}

/// Partition "all strings up to max_len" by their first `prefix_len` symbols.
/// Part 0 holds the strings shorter than `prefix_len`; part 1+k the strings
/// starting with the k-th prefix.
pub struct Partitioned<'a> {
    pub alpha: &'a [u8],
    pub max_len: usize,
    pub prefix_len: usize,
}

impl<'a> Partitioned<'a> {
    pub fn parts(&self) -> u64 {
        1 + (self.alpha.len() as u64).pow(self.prefix_len as u32)
    }
    pub fn total(&self) -> u64 {
        (0..=self.max_len as u32).map(|k| (self.alpha.len() as u64).pow(k)).sum()
    }
    pub fn run(&self, part: u64, f: &mut dyn FnMut(&[u8]) -> bool) {
        if part == 0 {
            for_all_strings(self.alpha, self.prefix_len.saturating_sub(1).min(self.max_len), f);
            return;
        }
        if self.max_len < self.prefix_len {
            return;
        }
        let mut k = part - 1;
        let mut prefix = vec![0u8; self.prefix_len];
        for p in (0..self.prefix_len).rev() {
            prefix[p] = self.alpha[(k % self.alpha.len() as u64) as usize];
            k /= self.alpha.len() as u64;
        }
        for_all_with_prefix(self.alpha, &prefix, self.max_len - self.prefix_len, f);
    }
}

#[cfg(test)]
mod tests {
    use super::*;
    #[test]
    fn counts() {
        let p = Partitioned { alpha: b"abc", max_len: 4, prefix_len: 2 };
        let mut n = 0u64;
        let mut seen = std::collections::HashSet::new();
        for part in 0..p.parts() {
            p.run(part, &mut |s| {
                n += 1;
                assert!(seen.insert(s.to_vec()));
                true
            });
        }
        assert_eq!(n, p.total());
        assert_eq!(n, 1 + 3 + 9 + 27 + 81);
    }
}
