//! vcheck — property-based verification harness for scpi-rs (see /verif/DESIGN.md).
pub mod alloc_count;
pub mod bytes;
#[cfg(feature = "full")]
pub mod cap;
pub mod conv;
#[cfg(feature = "full")]
pub mod dev488;
pub mod engine;
#[cfg(feature = "full")]
pub mod fixtree;
pub mod model;
#[cfg(feature = "full")]
pub mod na;
pub mod gen;
pub mod props;
#[cfg(feature = "full")]
pub mod rec;
