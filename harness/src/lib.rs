//! vcheck — property-based verification harness for scpi-rs (see /verif/DESIGN.md).
pub mod alloc_count;
pub mod bytes;
pub mod cap;
pub mod conv;
pub mod dev488;
pub mod engine;
pub mod fixtree;
pub mod model;
pub mod na;
pub mod gen;
pub mod props;
pub mod rec;
