//! Run something with `ArrayVec<u8, CAP>` for a capacity chosen at run time.
pub trait CapVisitor {
    type Out;
    fn visit<const N: usize>(&mut self) -> Self::Out;
}
include!(concat!(env!("OUT_DIR"), "/cap_dispatch.rs"));
