//! Counting global allocator (C11): per-thread count of allocation calls.
use std::alloc::{GlobalAlloc, Layout, System};
use std::cell::Cell;

thread_local! {
    static ALLOCS: Cell<u64> = const { Cell::new(0) };
}

pub struct Counting;

unsafe impl GlobalAlloc for Counting {
    unsafe fn alloc(&self, layout: Layout) -> *mut u8 {
        let _ = ALLOCS.try_with(|c| c.set(c.get() + 1));
        System.alloc(layout)
    }
    unsafe fn dealloc(&self, ptr: *mut u8, layout: Layout) {
        System.dealloc(ptr, layout)
    }
    unsafe fn alloc_zeroed(&self, layout: Layout) -> *mut u8 {
        let _ = ALLOCS.try_with(|c| c.set(c.get() + 1));
        System.alloc_zeroed(layout)
    }
    unsafe fn realloc(&self, ptr: *mut u8, layout: Layout, new_size: usize) -> *mut u8 {
        let _ = ALLOCS.try_with(|c| c.set(c.get() + 1));
        System.realloc(ptr, layout, new_size)
    }
}

/// Number of allocation calls (alloc, alloc_zeroed, realloc) made by this thread so far.
pub fn count() -> u64 {
    ALLOCS.with(|c| c.get())
}
