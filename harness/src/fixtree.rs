//! A small fixed command tree with recorder leaves, used where the property
//! is about something other than path resolution (C04, C05, C06, C10, C11).
//!
//! ```text
//! *X                      leaf 0
//! *ABCDEFGHIJKL           leaf 1   (12-character common mnemonic)
//! A                       leaf 2
//! B  [anonymous default]  leaf 3
//!    :C [:DEFault]        leaf 4
//!       :D                leaf 5
//!    :E                   leaf 6
//! ABCDEFGHIJKL            leaf 7   (12-character mnemonic)
//! OUTPut1 / OUTPut2       leaf 8 / 9
//! ```
use crate::bytes::B;
use crate::gen::msg::Header;
use crate::model::mnemonic::{matches, Verdict};
use crate::na::NaRec;
use crate::rec::{LogDev, Rec};
use proptest::prelude::*;
use scpi::tree::Node;

macro_rules! fixtree {
    ($H:ident) => {
        Node::Branch {
    name: b"",
    default: false,
    sub: &[
        Node::Leaf { name: b"*X", default: false, handler: &$H { id: 0 } },
        Node::Leaf { name: b"*ABCDEFGHIJKL", default: false, handler: &$H { id: 1 } },
        Node::Leaf { name: b"A", default: false, handler: &$H { id: 2 } },
        Node::Branch {
            name: b"B",
            default: false,
            sub: &[
                Node::Leaf { name: b"", default: true, handler: &$H { id: 3 } },
                Node::Branch {
                    name: b"C",
                    default: false,
                    sub: &[Node::Leaf { name: b"DEFault", default: true, handler: &$H { id: 4 } }, Node::Leaf { name: b"D", default: false, handler: &$H { id: 5 } }],
                },
                Node::Leaf { name: b"E", default: false, handler: &$H { id: 6 } },
            ],
        },
        Node::Leaf { name: b"ABCDEFGHIJKL", default: false, handler: &$H { id: 7 } },
        Node::Leaf { name: b"OUTPut1", default: false, handler: &$H { id: 8 } },
        Node::Leaf { name: b"OUTPut2", default: false, handler: &$H { id: 9 } },
    ],
}
    };
}

pub const FIXTREE: Node<'static, LogDev> = fixtree!(Rec);
/// The same tree with allocation-free handlers (C11).
pub const NATREE: Node<'static, crate::na::NaDev> = fixtree!(NaRec);

pub const N_LEAVES: usize = 10;

/// (definition path, leaf id); a `*` entry is a common command.
const TABLE: &[(&[&str], usize)] = &[
    (&["*X"], 0),
    (&["*ABCDEFGHIJKL"], 1),
    (&["A"], 2),
    (&["B"], 3),
    (&["B", "C"], 4),
    (&["B", "C", "DEFault"], 4),
    (&["B", "C", "D"], 5),
    (&["B", "E"], 6),
    (&["ABCDEFGHIJKL"], 7),
    (&["OUTPut1"], 8),
    (&["OUTPut2"], 9),
];

/// Which leaf does an absolute (or first-unit) header designate?
pub fn resolve(h: &Header) -> Option<usize> {
    for (defs, id) in TABLE {
        let common = defs[0].starts_with('*');
        if common != h.common || defs.len() != h.path.len() {
            continue;
        }
        let ok = defs.iter().zip(h.path.iter()).all(|(d, m)| {
            let d = d.trim_start_matches('*');
            matches(d.as_bytes(), m) == Verdict::Match
        });
        if ok {
            return Some(*id);
        }
    }
    None
}

fn recase(s: &str, mode: u8, mask: u16) -> B {
    let v: Vec<u8> = match mode {
        0 => s.as_bytes().to_vec(),
        1 => s.to_ascii_lowercase().into_bytes(),
        2 => s.to_ascii_uppercase().into_bytes(),
        _ => s.bytes().enumerate().map(|(k, b)| if mask >> (k % 16) & 1 == 1 { b.to_ascii_lowercase() } else { b.to_ascii_uppercase() }).collect(),
    };
    B(v)
}

/// Headers that designate a leaf of FIXTREE from the root (always with a
/// leading colon unless common, so that they are independent of the path).
pub fn fixed_header(query: BoxedStrategy<bool>) -> BoxedStrategy<Header> {
    (0usize..TABLE.len(), 0u8..4, any::<u16>(), any::<bool>(), any::<bool>(), query)
        .prop_map(|(i, mode, mask, short, one, query)| {
            let (defs, _) = TABLE[i];
            let common = defs[0].starts_with('*');
            let path: Vec<B> = defs
                .iter()
                .map(|d| {
                    let d = d.trim_start_matches('*');
                    // short or long form; a default suffix 1 may be written or omitted
                    let (alpha, sfx) = crate::model::mnemonic::split_suffix(d.as_bytes());
                    let a = if short { crate::model::mnemonic::short_of(alpha) } else { alpha };
                    let mut s = String::from_utf8(a.to_vec()).unwrap();
                    let sfx = std::str::from_utf8(sfx).unwrap();
                    if sfx == "1" {
                        if one {
                            s.push('1');
                        }
                    } else if sfx.is_empty() {
                        if one && s.len() < 12 {
                            s.push('1');
                        }
                    } else {
                        s.push_str(sfx);
                    }
                    recase(&s, mode, mask)
                })
                .collect();
            Header { common, colon: !common, path, query }
        })
        .boxed()
}

#[cfg(test)]
mod tests {
    use super::*;
    #[test]
    fn table_resolves() {
        let h = Header { common: false, colon: true, path: vec!["b".into(), "c".into(), "def1".into()], query: false };
        assert_eq!(resolve(&h), Some(4));
        let h = Header { common: true, colon: false, path: vec!["x".into()], query: true };
        assert_eq!(resolve(&h), Some(0));
        let h = Header { common: false, colon: true, path: vec!["OUTP".into()], query: true };
        assert_eq!(resolve(&h), Some(8));
        let h = Header { common: false, colon: true, path: vec!["output2".into()], query: true };
        assert_eq!(resolve(&h), Some(9));
    }
}

/// Drop the leading colon of units wherever that cannot change the meaning:
/// the first unit, and any unit reached while the current path is still the
/// root (all earlier units named root-level nodes or were common commands).
/// `mask` decides unit by unit whether the opportunity is taken.
pub fn relativize(mut msg: crate::gen::msg::Msg, mask: u16) -> crate::gen::msg::Msg {
    let mut at_root = true;
    for (i, u) in msg.units.iter_mut().enumerate() {
        if u.header.common {
            continue;
        }
        if at_root && mask >> (i % 16) & 1 == 1 {
            u.header.colon = false;
        }
        // with or without colon this unit resolved from the root; the path is now
        // the level of its last mnemonic
        at_root = u.header.path.len() == 1;
    }
    msg
}

/// Messages over the fixed tree: absolute headers, relative where equivalent.
pub fn fixed_message(query: BoxedStrategy<bool>, max_units: usize, max_data: usize, lead_ws: bool, indefinite: bool) -> BoxedStrategy<crate::gen::msg::Msg> {
    (crate::gen::msg::message_with(fixed_header(query), max_units, max_data, lead_ws, indefinite), any::<u16>()).prop_map(|(m, mask)| relativize(m, mask)).boxed()
}

/// `units` copies of the query `:A?` (leaf 2) with the given plans' responses:
/// the carrier of the size-boundary response cases (C09 / C10 / C11).
pub fn query_message(units: usize) -> crate::gen::msg::Msg {
    use crate::gen::msg::{Ending, Msg, Unit};
    let unit = Unit { header: Header { common: false, colon: true, path: vec![B::from("A")], query: true }, ws_header: B::default(), data: vec![], ws_data: vec![] };
    Msg { lead_ws: B::default(), units: vec![unit; units], ws_units: vec![(B::default(), B::default()); units.saturating_sub(1)], ending: Ending::Nl }
}

/// Plans whose responses sit at the size boundaries of counters and length
/// fields: 2^16 +- 1 data elements in one unit, blocks of 10^k +- 1 bytes up to
/// 10^7 (the digit count of the block header), blocks ending in NL / CR.
pub fn size_boundary_plans() -> Vec<Vec<crate::rec::UnitPlan>> {
    use crate::rec::{RespDatum, UnitPlan};
    let one = |d: Vec<RespDatum>| vec![UnitPlan { greedy: true, respond: d, ..Default::default() }];
    let mut v = Vec::new();
    for n in [65_535u32, 65_536, 65_537, 70_000] {
        v.push(one(vec![RespDatum::ManyU8(n)]));
    }
    for n in [99_999u32, 100_000, 999_999, 1_000_000, 1_000_001, 9_999_999, 10_000_000] {
        v.push(one(vec![RespDatum::BigBlock(n)]));
        v.push(one(vec![RespDatum::U8(7), RespDatum::BigBlock(n), RespDatum::U8(9)]));
    }
    for tail in [&b"\n"[..], b"\r", b"\r\n", b";", b"line 1\nline 2\n"] {
        v.push(one(vec![RespDatum::Block(B(tail.to_vec()))]));
        v.push(one(vec![RespDatum::Str(B(tail.to_vec()))]));
    }
    // lists given as one datum, every pattern of empty / non-empty items up to 4 items, alone and between other data
    for n in 1..=4u32 {
        for mask in 0..(1u32 << n) {
            let items: Vec<B> = (0..n).map(|i| if mask >> i & 1 == 1 { B::from("LBL") } else { B::default() }).collect();
            if n > 1 || mask != 0 {
                // (one empty item alone is a response unit without text: left out, the property does not say what frames it)
                v.push(one(vec![RespDatum::ChrList(items.clone())]));
            }
            v.push(one(vec![RespDatum::U8(n as u8), RespDatum::ChrList(items), RespDatum::U8(9)]));
        }
    }
    v
}
