//! Allocation-free device and handlers (C11): fixed arrays, hashes instead of
//! copies. Handlers follow the same `UnitPlan`s as the recorder handlers but
//! never touch the heap, so any allocation counted during `Node::run` is the
//! library's.
use crate::rec::{PlanEnum, PullAs, RespDatum, UnitPlan};
use scpi::error::{Error, Result};
use scpi::parser::expression::channel_list::{self as cl, ChannelList};
use scpi::parser::expression::numeric_list::NumericList;
use scpi::parser::format::{Arbitrary, Character, Expression};
use scpi::tree::prelude::*;

pub const MAX_CALLS: usize = 16;

pub struct NaDev {
    pub plan: &'static [UnitPlan],
    pub calls: [(u8, bool); MAX_CALLS],
    pub n_calls: usize,
    pub errors: [i16; 4],
    pub n_errors: usize,
    /// checksum over everything the handlers saw (keeps the conversions observable)
    pub digest: u64,
}

impl NaDev {
    pub fn new(plan: &'static [UnitPlan]) -> Self {
        NaDev { plan, calls: [(0, false); MAX_CALLS], n_calls: 0, errors: [0; 4], n_errors: 0, digest: 0 }
    }
}

impl Device for NaDev {
    fn handle_error(&mut self, err: Error) {
        if self.n_errors < self.errors.len() {
            self.errors[self.n_errors] = err.get_code();
        }
        self.n_errors += 1;
    }
}

pub struct NaRec {
    pub id: usize,
}

fn mix(d: &mut u64, v: u64) {
    *d = (*d ^ v).wrapping_mul(0x100000001b3).rotate_left(7);
}

fn bytes_hash(b: &[u8]) -> u64 {
    let mut h = 0xcbf29ce484222325u64;
    for c in b {
        h = (h ^ *c as u64).wrapping_mul(0x100000001b3);
    }
    h ^ b.len() as u64
}

fn na_convert(tok: Token, as_: PullAs) -> core::result::Result<u64, Error> {
    use crate::conv::Target;
    use scpi::parser::suffix::{Amplitude, Db};
    use scpi::units::uom::si::f32::{ElectricPotential, Power, Time};
    use scpi_contrib::scpi1999::NumericValue;
    Ok(match as_ {
        PullAs::Raw | PullAs::DataI32 | PullAs::DataF64 | PullAs::DataBool | PullAs::DataBytes => 0,
        PullAs::To(t) => match t {
            Target::Int(it) => it.convert(tok)? as u64,
            Target::F32 => f32::try_from(tok)?.to_bits() as u64,
            Target::F64 => f64::try_from(tok)?.to_bits(),
            Target::Bool => bool::try_from(tok)? as u64,
            Target::Bytes => bytes_hash(<&[u8]>::try_from(tok)?),
            Target::Str => bytes_hash(<&str>::try_from(tok)?.as_bytes()),
            Target::Arb => bytes_hash(Arbitrary::try_from(tok)?.0),
            Target::Chr => bytes_hash(Character::try_from(tok)?.0),
            Target::Expr => bytes_hash(Expression::try_from(tok)?.0),
            Target::NumList => {
                let mut n = 0u64;
                for item in NumericList::try_from(tok)?.take(300) {
                    if item.is_err() {
                        break;
                    }
                    n += 1;
                }
                n
            }
            Target::ChanList => {
                let mut n = 0u64;
                for item in ChannelList::try_from(tok)?.take(300) {
                    match item {
                        Ok(cl::Token::ChannelSpec(s)) => {
                            for d in s.into_iter().take(100_000) {
                                match d {
                                    Ok(v) => n = n.wrapping_add(v as u64),
                                    Err(_) => break,
                                }
                            }
                            let r: core::result::Result<(isize, isize), _> = s.try_into();
                            n += r.is_ok() as u64;
                        }
                        Ok(_) => n += 1,
                        Err(_) => break,
                    }
                }
                n
            }
        },
        PullAs::Enum => PlanEnum::try_from(tok)? as u64,
        PullAs::NumericF32 => match NumericValue::<f32>::try_from(tok)? {
            NumericValue::Value(v) => v.to_bits() as u64,
            NumericValue::Maximum => 1,
            NumericValue::Minimum => 2,
            NumericValue::Default => 3,
            NumericValue::Up => 4,
            NumericValue::Down => 5,
        },
        PullAs::NumericU8 => match NumericValue::<u8>::try_from(tok)? {
            NumericValue::Value(v) => v as u64,
            _ => 9,
        },
        PullAs::Volt => ElectricPotential::try_from(tok)?.value.to_bits() as u64,
        PullAs::Seconds => Time::try_from(tok)?.value.to_bits() as u64,
        PullAs::AmplitudeVolt => match Amplitude::<ElectricPotential>::try_from(tok)? {
            Amplitude::None(v) | Amplitude::Peak(v) | Amplitude::PeakToPeak(v) | Amplitude::Rms(v) => v.value.to_bits() as u64,
        },
        PullAs::DbPower => match Db::<f32, Power>::try_from(tok)? {
            Db::None(v) => v.to_bits() as u64,
            Db::Linear(u) => u.value.to_bits() as u64,
            Db::Logarithmic(v, _) => v.to_bits() as u64,
        },
        PullAs::Auto => scpi_contrib::scpi1999::util::Auto::try_from(tok)?.auto_enabled() as u64,
        PullAs::IterNumList => na_convert(tok, PullAs::To(Target::NumList))?,
        PullAs::IterChanList => na_convert(tok, PullAs::To(Target::ChanList))?,
        PullAs::All => 0,
    })
}

impl NaRec {
    fn run(&self, dev: &mut NaDev, mut params: Parameters, response: Option<ResponseUnit>, query: bool) -> Result<()> {
        let k = dev.n_calls;
        if k < MAX_CALLS {
            dev.calls[k] = (self.id as u8, query);
        }
        dev.n_calls += 1;
        static EMPTY: UnitPlan = UnitPlan { pulls: Vec::new(), greedy: true, headers: Vec::new(), respond: Vec::new(), fail: None, swallow: false, mid_finish: None };
        let plan: &'static UnitPlan = dev.plan.get(k).unwrap_or(&EMPTY);
        for p in plan.pulls.iter() {
            match p.as_ {
                PullAs::DataI32 => {
                    let v = if p.optional { params.next_optional_data::<i32>()? } else { Some(params.next_data::<i32>()?) };
                    mix(&mut dev.digest, v.unwrap_or(0) as u64);
                }
                PullAs::DataF64 => {
                    let v = if p.optional { params.next_optional_data::<f64>()? } else { Some(params.next_data::<f64>()?) };
                    mix(&mut dev.digest, v.unwrap_or(0.0).to_bits());
                }
                PullAs::DataBool => {
                    let v = if p.optional { params.next_optional_data::<bool>()? } else { Some(params.next_data::<bool>()?) };
                    mix(&mut dev.digest, v.unwrap_or(false) as u64);
                }
                PullAs::DataBytes => {
                    let v = if p.optional { params.next_optional_data::<&[u8]>()? } else { Some(params.next_data::<&[u8]>()?) };
                    mix(&mut dev.digest, bytes_hash(v.unwrap_or(b"")));
                }
                as_ => {
                    let tok = if p.optional { params.next_optional_token()? } else { Some(params.next_token()?) };
                    if let Some(t) = tok {
                        let v = na_convert(t, as_)?;
                        mix(&mut dev.digest, v);
                    }
                }
            }
        }
        if plan.greedy {
            while let Some(t) = params.next_optional_token()? {
                mix(&mut dev.digest, t.is_data() as u64);
            }
        }
        if let Some(f) = &plan.fail {
            return Err(f.build());
        }
        if let Some(mut resp) = response {
            for h in plan.headers.iter() {
                resp.header(h);
            }
            for (di, d) in plan.respond.iter().enumerate() {
                if plan.mid_finish == Some(di as u8) {
                    let _ = resp.finish();
                }
                match d {
                    RespDatum::I32(v) => resp.data(*v),
                    RespDatum::U8(v) => resp.data(*v),
                    RespDatum::U64(v) => resp.data(*v),
                    RespDatum::Bool(v) => resp.data(*v),
                    RespDatum::Str(s) => resp.data(&s[..]),
                    RespDatum::Block(s) => resp.data(Arbitrary(&s[..])),
                    RespDatum::Chr(s) => resp.data(Character(&s[..])),
                    RespDatum::Expr(s) => resp.data(Expression(&s[..])),
                    RespDatum::BigBlock(n) => resp.data(Arbitrary(crate::rec::big_block(*n))),
                    RespDatum::ZeroBlock(n) => resp.data(Arbitrary(crate::rec::zero_block(*n))),
                    RespDatum::Composite(parts) => resp.data(crate::rec::CompositeData(&parts[..])),
                    RespDatum::Err(e) => resp.data(e.build()),
                    RespDatum::Failing(e) => resp.data(crate::rec::FailingData(e.build())),
                    RespDatum::ChrList(items) => resp.data(items.iter().take(8).map(|i| Character(&i[..])).collect::<arrayvec::ArrayVec<_, 8>>()),
                    RespDatum::ManyU8(n) => {
                        for i in 0..*n {
                            resp.data((i % 251) as u8);
                        }
                        &mut resp
                    }
                };
            }
            return resp.finish();
        }
        Ok(())
    }
}

impl Command<NaDev> for NaRec {
    fn event(&self, device: &mut NaDev, _context: &mut Context, params: Parameters) -> Result<()> {
        self.run(device, params, None, false)
    }
    fn query(&self, device: &mut NaDev, _context: &mut Context, params: Parameters, response: ResponseUnit) -> Result<()> {
        self.run(device, params, Some(response), true)
    }
}
