//! Uniform access to the library's typed parameter conversions.
use crate::model::dec::Inter;
use scpi::error::Error;
use scpi::parser::tokenizer::Token;
use serde::{Deserialize, Serialize};

#[derive(Clone, Copy, Debug, Serialize, Deserialize, Hash, PartialEq, Eq)]
pub enum IntTy {
    I8,
    U8,
    I16,
    U16,
    I32,
    U32,
    I64,
    U64,
    Isize,
    Usize,
}

impl IntTy {
    pub const ALL: [IntTy; 10] = [
        IntTy::I8,
        IntTy::U8,
        IntTy::I16,
        IntTy::U16,
        IntTy::I32,
        IntTy::U32,
        IntTy::I64,
        IntTy::U64,
        IntTy::Isize,
        IntTy::Usize,
    ];
    pub fn name(self) -> &'static str {
        match self {
            IntTy::I8 => "i8",
            IntTy::U8 => "u8",
            IntTy::I16 => "i16",
            IntTy::U16 => "u16",
            IntTy::I32 => "i32",
            IntTy::U32 => "u32",
            IntTy::I64 => "i64",
            IntTy::U64 => "u64",
            IntTy::Isize => "isize",
            IntTy::Usize => "usize",
        }
    }
    pub fn range(self) -> (i128, i128) {
        match self {
            IntTy::I8 => (i8::MIN as i128, i8::MAX as i128),
            IntTy::U8 => (0, u8::MAX as i128),
            IntTy::I16 => (i16::MIN as i128, i16::MAX as i128),
            IntTy::U16 => (0, u16::MAX as i128),
            IntTy::I32 => (i32::MIN as i128, i32::MAX as i128),
            IntTy::U32 => (0, u32::MAX as i128),
            IntTy::I64 => (i64::MIN as i128, i64::MAX as i128),
            IntTy::U64 => (0, u64::MAX as i128),
            IntTy::Isize => (isize::MIN as i128, isize::MAX as i128),
            IntTy::Usize => (0, usize::MAX as i128),
        }
    }
    /// The float whose resolution the property grants: single for 8/16-bit
    /// targets, double otherwise.
    pub fn inter(self) -> Inter {
        match self {
            IntTy::I8 | IntTy::U8 | IntTy::I16 | IntTy::U16 => Inter::F32,
            _ => Inter::F64,
        }
    }
    pub fn bits(self) -> u32 {
        match self {
            IntTy::I8 | IntTy::U8 => 8,
            IntTy::I16 | IntTy::U16 => 16,
            IntTy::I32 | IntTy::U32 => 32,
            _ => 64,
        }
    }
    pub fn convert(self, tok: Token) -> Result<i128, Error> {
        Ok(match self {
            IntTy::I8 => i8::try_from(tok)? as i128,
            IntTy::U8 => u8::try_from(tok)? as i128,
            IntTy::I16 => i16::try_from(tok)? as i128,
            IntTy::U16 => u16::try_from(tok)? as i128,
            IntTy::I32 => i32::try_from(tok)? as i128,
            IntTy::U32 => u32::try_from(tok)? as i128,
            IntTy::I64 => i64::try_from(tok)? as i128,
            IntTy::U64 => u64::try_from(tok)? as i128,
            IntTy::Isize => isize::try_from(tok)? as i128,
            IntTy::Usize => usize::try_from(tok)? as i128,
        })
    }
}

pub fn int_ty_strategy() -> impl proptest::strategy::Strategy<Value = IntTy> {
    use proptest::prelude::*;
    (0usize..10).prop_map(|i| IntTy::ALL[i])
}

/// Lex `text` as parameter data and return the single data token, if that is
/// what the lexer produces.
pub fn lex_single(text: &[u8]) -> Option<Token<'_>> {
    let mut t = scpi::parser::tokenizer::Tokenizer::new_params(text);
    let first = t.next()?.ok()?;
    if t.next().is_some() {
        return None;
    }
    Some(first)
}

/// Every parameter target type the crate converts tokens into.
#[derive(Clone, Copy, Debug, Serialize, Deserialize, Hash, PartialEq, Eq)]
pub enum Target {
    Int(IntTy),
    F32,
    F64,
    Bool,
    Bytes,
    Str,
    Arb,
    Chr,
    Expr,
    NumList,
    ChanList,
}

#[derive(Clone, Debug, PartialEq)]
pub enum Out {
    Int(i128),
    F32(u32),
    F64(u64),
    Bool(bool),
    Bytes(Vec<u8>),
    NumList,
    ChanList,
}

impl Target {
    pub const ALL: [Target; 20] = [
        Target::Int(IntTy::I8),
        Target::Int(IntTy::U8),
        Target::Int(IntTy::I16),
        Target::Int(IntTy::U16),
        Target::Int(IntTy::I32),
        Target::Int(IntTy::U32),
        Target::Int(IntTy::I64),
        Target::Int(IntTy::U64),
        Target::Int(IntTy::Isize),
        Target::Int(IntTy::Usize),
        Target::F32,
        Target::F64,
        Target::Bool,
        Target::Bytes,
        Target::Str,
        Target::Arb,
        Target::Chr,
        Target::Expr,
        Target::NumList,
        Target::ChanList,
    ];

    pub fn convert(self, tok: Token) -> Result<Out, Error> {
        use scpi::parser::expression::{channel_list::ChannelList, numeric_list::NumericList};
        use scpi::parser::format::{Arbitrary, Character, Expression};
        Ok(match self {
            Target::Int(t) => Out::Int(t.convert(tok)?),
            Target::F32 => Out::F32(f32::try_from(tok)?.to_bits()),
            Target::F64 => Out::F64(f64::try_from(tok)?.to_bits()),
            Target::Bool => Out::Bool(bool::try_from(tok)?),
            Target::Bytes => Out::Bytes(<&[u8]>::try_from(tok)?.to_vec()),
            Target::Str => Out::Bytes(<&str>::try_from(tok)?.as_bytes().to_vec()),
            Target::Arb => Out::Bytes(Arbitrary::try_from(tok)?.0.to_vec()),
            Target::Chr => Out::Bytes(Character::try_from(tok)?.0.to_vec()),
            Target::Expr => Out::Bytes(Expression::try_from(tok)?.0.to_vec()),
            Target::NumList => {
                let _ = NumericList::try_from(tok)?;
                Out::NumList
            }
            Target::ChanList => {
                let _ = ChannelList::try_from(tok)?;
                Out::ChanList
            }
        })
    }
}

/// The seven data element kinds (decimal with suffix counted separately).
#[derive(Clone, Copy, Debug, Serialize, Deserialize, Hash, PartialEq, Eq)]
pub enum Kind {
    Chr,
    Dec,
    DecSuffix,
    NonDec,
    Str,
    Block,
    Expr,
}

impl Kind {
    pub const ALL: [Kind; 7] = [Kind::Chr, Kind::Dec, Kind::DecSuffix, Kind::NonDec, Kind::Str, Kind::Block, Kind::Expr];
}
