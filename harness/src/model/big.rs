//! Minimal arbitrary-precision unsigned integer (base 10^9 limbs), enough for
//! exact decimal expansions of floats and exact comparisons of literals.
use std::cmp::Ordering;

const BASE: u64 = 1_000_000_000;

#[derive(Clone, Debug, PartialEq, Eq)]
pub struct Big(Vec<u32>); // little endian, no trailing zero limbs

impl Big {
    pub fn zero() -> Self {
        Big(Vec::new())
    }
    pub fn from_u128(mut v: u128) -> Self {
        let mut l = Vec::new();
        while v > 0 {
            l.push((v % BASE as u128) as u32);
            v /= BASE as u128;
        }
        Big(l)
    }
    pub fn from_dec(s: &[u8]) -> Self {
        let mut limbs = Vec::with_capacity(s.len() / 9 + 1);
        let mut end = s.len();
        while end > 0 {
            let start = end.saturating_sub(9);
            let mut v = 0u32;
            for &c in &s[start..end] {
                debug_assert!(c.is_ascii_digit());
                v = v * 10 + (c - b'0') as u32;
            }
            limbs.push(v);
            end = start;
        }
        let mut b = Big(limbs);
        b.trim();
        b
    }
    fn trim(&mut self) {
        while self.0.last() == Some(&0) {
            self.0.pop();
        }
    }
    pub fn is_zero(&self) -> bool {
        self.0.is_empty()
    }
    pub fn mul_small(&mut self, m: u32) {
        let mut carry = 0u64;
        for l in self.0.iter_mut() {
            let v = *l as u64 * m as u64 + carry;
            *l = (v % BASE) as u32;
            carry = v / BASE;
        }
        while carry > 0 {
            self.0.push((carry % BASE) as u32);
            carry /= BASE;
        }
        self.trim();
    }
    pub fn mul_pow2(&mut self, mut k: u32) {
        while k >= 29 {
            self.mul_small(1 << 29);
            k -= 29;
        }
        if k > 0 {
            self.mul_small(1 << k);
        }
    }
    pub fn mul_pow5(&mut self, mut k: u32) {
        while k >= 13 {
            self.mul_small(1_220_703_125); // 5^13
            k -= 13;
        }
        if k > 0 {
            self.mul_small(5u32.pow(k));
        }
    }
    pub fn mul_pow10(&mut self, k: u32) {
        if self.is_zero() {
            return;
        }
        let limbs = (k / 9) as usize;
        let rest = k % 9;
        if rest > 0 {
            self.mul_small(10u32.pow(rest));
        }
        if limbs > 0 {
            let mut v = vec![0u32; limbs];
            v.extend_from_slice(&self.0);
            self.0 = v;
        }
    }
    pub fn add(&mut self, o: &Big) {
        let mut carry = 0u64;
        let n = self.0.len().max(o.0.len());
        self.0.resize(n, 0);
        for i in 0..n {
            let v = self.0[i] as u64 + *o.0.get(i).unwrap_or(&0) as u64 + carry;
            self.0[i] = (v % BASE) as u32;
            carry = v / BASE;
        }
        if carry > 0 {
            self.0.push(carry as u32);
        }
    }
    pub fn add_small(&mut self, v: u32) {
        self.add(&Big::from_u128(v as u128));
    }
    /// self -= o, requires self >= o
    pub fn sub(&mut self, o: &Big) {
        debug_assert!(self.cmp(o) != Ordering::Less);
        let mut borrow = 0i64;
        for i in 0..self.0.len() {
            let mut v = self.0[i] as i64 - *o.0.get(i).unwrap_or(&0) as i64 - borrow;
            if v < 0 {
                v += BASE as i64;
                borrow = 1;
            } else {
                borrow = 0;
            }
            self.0[i] = v as u32;
        }
        self.trim();
    }
    pub fn cmp(&self, o: &Big) -> Ordering {
        if self.0.len() != o.0.len() {
            return self.0.len().cmp(&o.0.len());
        }
        for i in (0..self.0.len()).rev() {
            if self.0[i] != o.0[i] {
                return self.0[i].cmp(&o.0[i]);
            }
        }
        Ordering::Equal
    }
    pub fn to_dec(&self) -> String {
        if self.0.is_empty() {
            return "0".into();
        }
        let mut s = format!("{}", self.0[self.0.len() - 1]);
        for l in self.0.iter().rev().skip(1) {
            s.push_str(&format!("{:09}", l));
        }
        s
    }
    pub fn to_u128(&self) -> Option<u128> {
        let mut v: u128 = 0;
        for l in self.0.iter().rev() {
            v = v.checked_mul(BASE as u128)?.checked_add(*l as u128)?;
        }
        Some(v)
    }
}

/// Exact decimal expansion of `m * 2^e` as (integer digits, fraction digits).
pub fn expand_binary(m: u128, e: i32) -> (String, String) {
    let mut b = Big::from_u128(m);
    if e >= 0 {
        b.mul_pow2(e as u32);
        (b.to_dec(), String::new())
    } else {
        // m * 2^e = m * 5^-e / 10^-e
        let k = (-e) as u32;
        b.mul_pow5(k);
        let s = b.to_dec();
        let k = k as usize;
        let (ip, fp) = if s.len() > k {
            (s[..s.len() - k].to_string(), s[s.len() - k..].to_string())
        } else {
            ("0".to_string(), format!("{}{}", "0".repeat(k - s.len()), s))
        };
        let fp = fp.trim_end_matches('0').to_string();
        (ip, fp)
    }
}

#[cfg(test)]
mod tests {
    use super::*;
    #[test]
    fn expand() {
        assert_eq!(expand_binary(1, -1), ("0".into(), "5".into()));
        assert_eq!(expand_binary(3, -2), ("0".into(), "75".into()));
        assert_eq!(expand_binary(5, 3), ("40".into(), "".into()));
        assert_eq!(expand_binary(1, 64).0, "18446744073709551616");
        let (i, f) = expand_binary(1, -1074);
        assert_eq!(i, "0");
        assert!(f.starts_with("000") && f.ends_with("625"));
        let mut a = Big::from_dec(b"1000000000000000000000");
        a.sub(&Big::from_dec(b"1"));
        assert_eq!(a.to_dec(), "999999999999999999999");
        let mut c = Big::from_dec(b"123");
        c.mul_pow10(20);
        assert_eq!(c.to_dec(), "12300000000000000000000");
    }
}
