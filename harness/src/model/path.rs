//! Reference header-path resolver (SCPI-99 6.2, DESIGN 3.2): which leaf does
//! each unit of a message designate, given the tree model?
use crate::gen::msg::Header;
use crate::gen::tree::{TNode, Tree};
use crate::model::mnemonic::{matches, Verdict};

#[derive(Clone, Copy, Debug, PartialEq, Eq)]
pub enum Res {
    Leaf(usize),
    Undefined,
    /// a received suffix equals a defined one only up to leading zeros: not judged
    Unjudged,
}

pub struct Resolver<'t> {
    tree: &'t Tree,
    /// child indices from the root to the current branch
    pub path: Vec<usize>,
}

fn children_at<'t>(tree: &'t Tree, path: &[usize]) -> &'t [TNode] {
    let mut c: &[TNode] = &tree.root;
    for i in path {
        c = c[*i].children();
    }
    c
}

fn node_at<'t>(tree: &'t Tree, path: &[usize]) -> Option<&'t TNode> {
    let (last, parent) = path.split_last()?;
    Some(&children_at(tree, parent)[*last])
}

enum Look {
    Found(Vec<usize>),
    None,
    Unjudged,
}

fn lookup(tree: &Tree, branch: &[usize], m: &[u8]) -> Look {
    let children = children_at(tree, branch);
    let mut unjudged = false;
    for (i, c) in children.iter().enumerate() {
        if c.name().is_empty() || c.name().starts_with('*') {
            continue;
        }
        match matches(c.name().as_bytes(), m) {
            Verdict::Match => {
                let mut p = branch.to_vec();
                p.push(i);
                return Look::Found(p);
            }
            Verdict::NoClaim => unjudged = true,
            Verdict::NoMatch => {}
        }
    }
    if unjudged {
        return Look::Unjudged;
    }
    // not named here: search the default child branch
    if let Some(i) = children.iter().position(|c| c.is_branch() && c.is_default()) {
        let mut p = branch.to_vec();
        p.push(i);
        return lookup(tree, &p, m);
    }
    Look::None
}

fn resolve_end(tree: &Tree, node: &[usize]) -> Res {
    let children = if node.is_empty() {
        &tree.root[..]
    } else {
        match node_at(tree, node).unwrap() {
            TNode::Leaf { id, .. } => return Res::Leaf(*id),
            TNode::Branch { children, .. } => &children[..],
        }
    };
    if let Some(TNode::Leaf { id, .. }) = children.iter().find(|c| !c.is_branch() && c.is_default()) {
        return Res::Leaf(*id);
    }
    if let Some(i) = children.iter().position(|c| c.is_branch() && c.is_default()) {
        let mut p = node.to_vec();
        p.push(i);
        return resolve_end(tree, &p);
    }
    Res::Undefined
}

impl<'t> Resolver<'t> {
    /// A new message always starts at the root.
    pub fn new(tree: &'t Tree) -> Self {
        Resolver { tree, path: Vec::new() }
    }

    pub fn unit(&mut self, first: bool, h: &Header) -> Res {
        if h.common {
            let mut unjudged = false;
            for c in &self.tree.root {
                if let TNode::Leaf { name, id, .. } = c {
                    if let Some(def) = name.strip_prefix('*') {
                        match matches(def.as_bytes(), &h.path[0]) {
                            Verdict::Match => return Res::Leaf(*id),
                            Verdict::NoClaim => unjudged = true,
                            Verdict::NoMatch => {}
                        }
                    }
                }
            }
            return if unjudged { Res::Unjudged } else { Res::Undefined };
        }
        let mut node: Vec<usize> = if first || h.colon { Vec::new() } else { self.path.clone() };
        let mut at_leaf = false;
        for m in &h.path {
            if at_leaf {
                return Res::Undefined; // a mnemonic after a leaf
            }
            match lookup(self.tree, &node, m) {
                Look::Found(p) => {
                    self.path = p[..p.len() - 1].to_vec();
                    at_leaf = !node_at(self.tree, &p).unwrap().is_branch();
                    node = p;
                }
                Look::None => return Res::Undefined,
                Look::Unjudged => return Res::Unjudged,
            }
        }
        resolve_end(self.tree, &node)
    }
}

/// Public helpers for generators.
pub fn children_of<'t>(tree: &'t Tree, path: &[usize]) -> &'t [TNode] {
    children_at(tree, path)
}
