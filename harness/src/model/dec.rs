//! Exact decimal reading of a <DECIMAL NUMERIC PROGRAM DATA> literal and the
//! integer-rounding oracle of C07 / C08 (DESIGN 3.6, 4/C07).
use super::big::Big;
use std::cmp::Ordering;

/// A literal `[+-] (d+ [. d*] | . d+) [Ee [+-] d+]` split into an integer part
/// (as u128, `None` if it exceeds 30 digits = "huge") and fraction digits.
#[derive(Clone, Debug)]
pub struct Dec {
    pub neg: bool,
    /// integer part of |v|; None when |v| >= 10^30
    pub ip: Option<u128>,
    /// leading fraction digits of |v| (at most FRAC_CAP), trailing zeros removed
    pub frac: Vec<u8>,
    /// true when non-zero fraction digits were cut off after FRAC_CAP
    pub sticky: bool,
}

const FRAC_CAP: usize = 120;

/// Parse the literal; `None` if it is not of the NRf shape above.
pub fn parse(lit: &[u8]) -> Option<Dec> {
    let mut i = 0;
    let mut neg = false;
    if i < lit.len() && (lit[i] == b'+' || lit[i] == b'-') {
        neg = lit[i] == b'-';
        i += 1;
    }
    let int_start = i;
    while i < lit.len() && lit[i].is_ascii_digit() {
        i += 1;
    }
    let int_digits = &lit[int_start..i];
    let mut frac_digits: &[u8] = &[];
    if i < lit.len() && lit[i] == b'.' {
        i += 1;
        let fs = i;
        while i < lit.len() && lit[i].is_ascii_digit() {
            i += 1;
        }
        frac_digits = &lit[fs..i];
    }
    if int_digits.is_empty() && frac_digits.is_empty() {
        return None;
    }
    let mut exp: i64 = 0;
    if i < lit.len() && (lit[i] == b'e' || lit[i] == b'E') {
        i += 1;
        let mut eneg = false;
        if i < lit.len() && (lit[i] == b'+' || lit[i] == b'-') {
            eneg = lit[i] == b'-';
            i += 1;
        }
        let es = i;
        while i < lit.len() && lit[i].is_ascii_digit() {
            exp = (exp * 10 + (lit[i] - b'0') as i64).min(1_000_000_000);
            i += 1;
        }
        if es == i {
            return None;
        }
        if eneg {
            exp = -exp;
        }
    }
    if i != lit.len() {
        return None;
    }
    // all significant digits, decimal point after `point` digits
    let mut digits: Vec<u8> = Vec::with_capacity(int_digits.len() + frac_digits.len());
    digits.extend_from_slice(int_digits);
    digits.extend_from_slice(frac_digits);
    let mut point = int_digits.len() as i64 + exp;
    // strip leading zeros
    let lead = digits.iter().take_while(|c| **c == b'0').count();
    digits.drain(..lead);
    point -= lead as i64;
    while digits.last() == Some(&b'0') {
        digits.pop();
    }
    if digits.is_empty() {
        return Some(Dec { neg, ip: Some(0), frac: Vec::new(), sticky: false });
    }
    let (ip, frac_all): (Option<u128>, Vec<u8>) = if point <= 0 {
        let zeros = (-point) as usize;
        if zeros >= FRAC_CAP {
            return Some(Dec { neg, ip: Some(0), frac: Vec::new(), sticky: true });
        }
        let mut f = vec![b'0'; zeros];
        f.extend_from_slice(&digits);
        (Some(0), f)
    } else if point as usize >= digits.len() {
        if point > 30 {
            (None, Vec::new())
        } else {
            let mut s = digits.clone();
            s.resize(point as usize, b'0');
            (Some(std::str::from_utf8(&s).unwrap().parse().unwrap()), Vec::new())
        }
    } else if point > 30 {
        (None, Vec::new())
    } else {
        let (a, b) = digits.split_at(point as usize);
        (Some(std::str::from_utf8(a).unwrap().parse().unwrap()), b.to_vec())
    };
    let mut frac = frac_all;
    let mut sticky = false;
    if frac.len() > FRAC_CAP {
        sticky = frac[FRAC_CAP..].iter().any(|c| *c != b'0');
        frac.truncate(FRAC_CAP);
    }
    while frac.last() == Some(&b'0') {
        frac.pop();
    }
    Some(Dec { neg, ip, frac, sticky })
}

impl Dec {
    pub fn is_zero(&self) -> bool {
        self.ip == Some(0) && self.frac.is_empty() && !self.sticky
    }
    pub fn has_fraction(&self) -> bool {
        !self.frac.is_empty() || self.sticky
    }
}

/// Which float the property names as the resolution of the conversion.
#[derive(Clone, Copy, PartialEq, Eq, Debug)]
pub enum Inter {
    F32,
    F64,
}

/// The set S = { n : |n - v| <= 1/2 + tol } as an inclusive range, where tol is
/// the spacing of the intermediate float at magnitude |v| + 1 (generously: the
/// binade of ip + 2). `None` when |v| >= 10^30 (outside every integer type).
pub fn rounding_set(d: &Dec, inter: Inter) -> Option<(i128, i128)> {
    let ip = d.ip?;
    let mant_bits: i32 = match inter {
        Inter::F32 => 23,
        Inter::F64 => 52,
    };
    let e = 127 - (ip + 2).leading_zeros() as i32; // floor(log2(ip+2))
    let t = e - mant_bits; // tol = 2^t
    let (lo_mag, hi_mag): (i128, i128) = if t >= 0 {
        let tol = 1i128 << t;
        let ge_half = frac_cmp_half(&d.frac, d.sticky, true) != Ordering::Less;
        let gt_half = frac_cmp_half(&d.frac, d.sticky, false) == Ordering::Greater;
        (
            (ip as i128 - tol + if gt_half { 1 } else { 0 }).max(0),
            ip as i128 + tol + if ge_half { 1 } else { 0 },
        )
    } else {
        // tol = 5^k / 10^k with k = -t
        let k = (-t) as u32;
        let scale = (d.frac.len() as u32).max(k) + 1;
        let mut f = Big::from_dec(&d.frac);
        f.mul_pow10(scale - d.frac.len() as u32);
        let mut f_hi = f.clone();
        if d.sticky {
            f_hi.add_small(1);
        }
        let mut tol = Big::from_u128(1);
        tol.mul_pow5(k);
        tol.mul_pow10(scale - k);
        let mut half = Big::from_u128(5);
        half.mul_pow10(scale - 1);
        // hi: f_hi + tol >= 1/2 ?
        let mut a = f_hi.clone();
        a.add(&tol);
        let hi = ip as i128 + if a.cmp(&half) != Ordering::Less { 1 } else { 0 };
        // lo: f - tol > 1/2 -> ip+1 ; f - tol <= 1/2 -> ip ; f + 1/2 <= tol -> ip - 1
        let mut b = half.clone();
        b.add(&tol);
        let lo = if f.cmp(&b) == Ordering::Greater {
            ip as i128 + 1
        } else {
            let mut c = f.clone();
            c.add(&half);
            if c.cmp(&tol) != Ordering::Greater {
                ip as i128 - 1
            } else {
                ip as i128
            }
        };
        (lo.max(0), hi)
    };
    Some(if d.neg { (-hi_mag, -lo_mag) } else { (lo_mag, hi_mag) })
}

/// Compare the fraction with 1/2. With `upper` the sticky remainder counts
/// (value slightly above the kept digits).
fn frac_cmp_half(frac: &[u8], sticky: bool, _upper: bool) -> Ordering {
    match frac.first() {
        None => {
            if sticky {
                Ordering::Less // 0.000..x < 1/2
            } else {
                Ordering::Less
            }
        }
        Some(&c) if c > b'5' => Ordering::Greater,
        Some(&c) if c < b'5' => Ordering::Less,
        Some(_) => {
            if frac.len() > 1 || sticky {
                Ordering::Greater
            } else {
                Ordering::Equal
            }
        }
    }
}

/// Exact rounding of the literal itself: the nearest integer, both neighbours
/// at an exact tie. `None` when |v| >= 10^30.
pub fn exact_round_set(d: &Dec) -> Option<(i128, i128)> {
    let ip = d.ip? as i128;
    let (lo, hi) = match frac_cmp_half(&d.frac, d.sticky, true) {
        Ordering::Less => (ip, ip),
        Ordering::Equal => (ip, ip + 1),
        Ordering::Greater => (ip + 1, ip + 1),
    };
    Some(if d.neg { (-hi, -lo) } else { (lo, hi) })
}

/// Exact rounding of a float value (the correctly rounded intermediate the
/// property grants): nearest integer, both neighbours at an exact tie.
/// Magnitudes beyond 2^100 (and infinities) are reported as +-2^100.
pub fn float_round_set(x: f64) -> (i128, i128) {
    const BIG: i128 = 1 << 100;
    if x.is_nan() {
        return (0, 0);
    }
    if x.abs() >= 1.2e30 {
        return if x > 0.0 { (BIG, BIG) } else { (-BIG, -BIG) };
    }
    let t = x.trunc();
    let r = (x - t).abs(); // exact
    let ti = t as i128;
    let away = if x < 0.0 { ti - 1 } else { ti + 1 };
    if r > 0.5 {
        (away, away)
    } else if r == 0.5 {
        (ti.min(away), ti.max(away))
    } else {
        (ti, ti)
    }
}

/// Verdict for an integer conversion of a decimal literal into [min, max]:
/// admissible results are the exact rounding of the literal and the exact
/// rounding of its correctly rounded intermediate float(s) -- "exact up to the
/// resolution of a double (of a single for 8/16-bit targets), either neighbour
/// at an exact tie".
#[derive(Clone, Debug)]
pub struct IntOracle {
    /// admissible integers as inclusive ranges (before clipping to the type)
    pub sets: Vec<(i128, i128)>,
    pub min: i128,
    pub max: i128,
}

pub fn int_oracle(d: &Dec, lit: &str, inter: Inter, min: i128, max: i128) -> IntOracle {
    const BIG: i128 = 1 << 100;
    let mut sets = Vec::with_capacity(3);
    match exact_round_set(d) {
        Some(s) => sets.push(s),
        None => sets.push(if d.neg { (-BIG, -BIG) } else { (BIG, BIG) }),
    }
    if let Ok(x) = lit.parse::<f64>() {
        sets.push(float_round_set(x));
    }
    if inter == Inter::F32 {
        if let Ok(x) = lit.parse::<f32>() {
            sets.push(float_round_set(x as f64));
        }
    }
    IntOracle { sets, min, max }
}

impl IntOracle {
    pub fn admits_ok(&self, n: i128) -> bool {
        self.min <= n && n <= self.max && self.sets.iter().any(|(lo, hi)| *lo <= n && n <= *hi)
    }
    /// is Err(-222) admissible: some admissible integer lies outside the type
    pub fn err_ok(&self) -> bool {
        self.sets.iter().any(|(lo, hi)| *lo < self.min || *hi > self.max)
    }
    pub fn must_be_ok(&self) -> bool {
        !self.err_ok()
    }
    /// no admissible integer lies inside the type
    pub fn must_be_err(&self) -> bool {
        !self.sets.iter().any(|(lo, hi)| *hi >= self.min && *lo <= self.max)
    }
    pub fn describe(&self) -> String {
        format!("{:?}", self.sets)
    }
}

#[cfg(test)]
mod tests {
    use super::*;
    fn set(l: &str, i: Inter) -> Option<(i128, i128)> {
        rounding_set(&parse(l.as_bytes()).unwrap(), i)
    }
    #[test]
    fn sets() {
        assert_eq!(set("0", Inter::F64), Some((0, 0)));
        assert_eq!(set("0.0", Inter::F64), Some((0, 0)));
        assert_eq!(set("-0.4", Inter::F64), Some((0, 0)));
        assert_eq!(set("0.5", Inter::F64), Some((0, 1)));
        assert_eq!(set("-0.5", Inter::F64), Some((-1, 0)));
        assert_eq!(set("0.6", Inter::F64), Some((1, 1)));
        assert_eq!(set("2147483647.4", Inter::F64), Some((2147483647, 2147483647)));
        assert_eq!(set("2147483647.5", Inter::F64), Some((2147483647, 2147483648)));
        assert_eq!(set("2.5e0", Inter::F64), Some((2, 3)));
        assert_eq!(set("25e-1", Inter::F64), Some((2, 3)));
        assert_eq!(set(".25E+1", Inter::F64), Some((2, 3)));
        assert_eq!(set("1e-400", Inter::F64), Some((0, 0)));
        assert_eq!(set("1e400", Inter::F64), None);
        assert_eq!(set("0.49999999999999994", Inter::F64), Some((0, 1)));
        assert_eq!(set("0.4999", Inter::F64), Some((0, 0)));
        assert_eq!(set("255.4", Inter::F32), Some((255, 255)));
        assert_eq!(set("255.49999", Inter::F32), Some((255, 256)));
        assert_eq!(set("127.49", Inter::F32), Some((127, 127)));
        let (lo, hi) = set("9223372036854775807.0", Inter::F64).unwrap();
        assert!(lo < 9223372036854775807 && hi > 9223372036854775807);
    }
}
