//! Independent recogniser of IEEE 488.2 section 7 program messages (DESIGN 3.4)
//! for *arbitrary* byte strings, with three verdicts:
//!   WellFormed(elements)  the string is in the sound grammar subset; the lexer
//!                         must produce exactly these elements
//!   Listed{prefix, ..}    the first deviation is one of the violations property
//!                         C04 enumerates; the lexer must produce `prefix` and
//!                         then a command error
//!   Unknown               anything else: no claim
use crate::bytes::B;
use crate::gen::msg::ETok;

#[derive(Clone, Debug, PartialEq, Eq)]
pub enum Verdict {
    WellFormed(Vec<ETok>),
    Listed { prefix: Vec<ETok>, what: &'static str },
    Unknown,
}

fn is_ws(c: u8) -> bool {
    matches!(c, b' ' | b'\t' | b'\r' | 0x0c)
}

fn is_data_start(c: u8) -> bool {
    c.is_ascii_alphabetic() || c.is_ascii_digit() || matches!(c, b'+' | b'-' | b'.' | b'#' | b'"' | b'\'' | b'(')
}

struct P<'a> {
    s: &'a [u8],
    i: usize,
    t: Vec<ETok>,
}

enum Stop {
    Listed(&'static str),
    Unknown,
}

type R<T> = Result<T, Stop>;

impl<'a> P<'a> {
    fn peek(&self) -> Option<u8> {
        self.s.get(self.i).copied()
    }
    fn at(&self, k: usize) -> Option<u8> {
        self.s.get(self.i + k).copied()
    }
    fn skip_ws(&mut self) -> bool {
        let a = self.i;
        while self.peek().map_or(false, is_ws) {
            self.i += 1;
        }
        self.i > a
    }
    /// the rest is a legal message ending after a completed unit (no ';' pending)
    fn at_end(&self) -> bool {
        matches!(&self.s[self.i..], [] | [b'\n'])
    }

    fn mnemonic(&mut self) -> R<&'a [u8]> {
        let a = self.i;
        match self.peek() {
            Some(c) if c.is_ascii_alphabetic() => {}
            Some(c) if c >= 0x80 => return Err(Stop::Listed("non-ASCII byte in header")),
            _ => return Err(Stop::Unknown),
        }
        while self.peek().map_or(false, |c| c.is_ascii_alphanumeric() || c == b'_') {
            self.i += 1;
        }
        if self.i - a > 12 {
            return Err(Stop::Listed("mnemonic longer than 12 characters"));
        }
        Ok(&self.s[a..self.i])
    }

    fn header(&mut self) -> R<()> {
        match self.peek() {
            Some(b'*') => {
                self.i += 1;
                let a = self.i - 1;
                self.mnemonic().map_err(|e| match e {
                    // "*" followed by a non-ASCII byte etc.
                    Stop::Listed(w) => Stop::Listed(w),
                    Stop::Unknown => Stop::Unknown,
                })?;
                self.t.push(ETok::Mnemonic(B(self.s[a..self.i].to_vec())));
                if self.peek() == Some(b':') {
                    return Err(Stop::Listed("':' after a common header"));
                }
            }
            Some(c) => {
                if c == b':' {
                    match self.at(1) {
                        Some(n) if n.is_ascii_alphabetic() => {
                            self.i += 1;
                            self.t.push(ETok::Colon);
                        }
                        Some(b':') => return Err(Stop::Listed("'::' in header")),
                        _ => return Err(Stop::Unknown),
                    }
                }
                let m = self.mnemonic()?;
                self.t.push(ETok::Mnemonic(B(m.to_vec())));
                while self.peek() == Some(b':') {
                    match self.at(1) {
                        Some(n) if n.is_ascii_alphabetic() => {
                            self.i += 1;
                            self.t.push(ETok::Colon);
                            let m = self.mnemonic()?;
                            self.t.push(ETok::Mnemonic(B(m.to_vec())));
                        }
                        Some(b':') => return Err(Stop::Listed("'::' in header")),
                        _ => return Err(Stop::Unknown),
                    }
                }
            }
            None => return Err(Stop::Unknown),
        }
        if self.peek() == Some(b'?') {
            self.i += 1;
            self.t.push(ETok::Query);
            match self.peek() {
                None | Some(b';') | Some(b'\n') => {}
                Some(c) if is_ws(c) => {}
                _ => return Err(Stop::Unknown),
            }
        } else {
            match self.peek() {
                None | Some(b';') | Some(b'\n') => {}
                Some(c) if is_ws(c) => {}
                Some(b',') => return Err(Stop::Listed("',' in header")),
                Some(c) if c >= 0x80 => return Err(Stop::Listed("non-ASCII byte in header")),
                _ => return Err(Stop::Unknown),
            }
        }
        Ok(())
    }

    fn decimal(&mut self) -> R<ETok> {
        let a = self.i;
        if matches!(self.peek(), Some(b'+') | Some(b'-')) {
            self.i += 1;
        }
        let d0 = self.i;
        while self.peek().map_or(false, |c| c.is_ascii_digit()) {
            self.i += 1;
        }
        let mut digits = self.i - d0;
        if self.peek() == Some(b'.') {
            self.i += 1;
            let f0 = self.i;
            while self.peek().map_or(false, |c| c.is_ascii_digit()) {
                self.i += 1;
            }
            digits += self.i - f0;
        }
        if digits == 0 {
            return Err(Stop::Unknown);
        }
        if matches!(self.peek(), Some(b'e') | Some(b'E')) {
            let mut j = self.i + 1;
            if matches!(self.s.get(j), Some(b'+') | Some(b'-')) {
                j += 1;
            }
            let e0 = j;
            while self.s.get(j).map_or(false, |c| c.is_ascii_digit()) {
                j += 1;
            }
            if j == e0 {
                return Err(Stop::Unknown); // "1EV", "1E": ambiguous with a suffix
            }
            self.i = j;
        }
        let lit = B(self.s[a..self.i].to_vec());
        // optional suffix, possibly after white space
        let save = self.i;
        let had_ws = self.skip_ws();
        match self.peek() {
            Some(c) if c.is_ascii_alphabetic() || c == b'/' => {
                if matches!(c, b'e' | b'E') {
                    // white space + something that looks like an exponent: known finding territory
                    let n = self.at(1);
                    if !had_ws || n.map_or(true, |n| !n.is_ascii_alphabetic()) {
                        return Err(Stop::Unknown);
                    }
                }
                let s0 = self.i;
                while self.peek().map_or(false, |c| c.is_ascii_alphanumeric() || matches!(c, b'.' | b'/' | b'-')) {
                    self.i += 1;
                }
                if self.i - s0 > 12 {
                    return Err(Stop::Listed("suffix longer than 12 characters"));
                }
                Ok(ETok::DecSuffix(lit, B(self.s[s0..self.i].to_vec())))
            }
            _ => {
                self.i = save;
                Ok(ETok::Dec(lit))
            }
        }
    }

    fn hash(&mut self) -> R<ETok> {
        // at '#'
        match self.at(1) {
            None => Err(Stop::Listed("lone '#'")),
            Some(r @ (b'H' | b'h' | b'Q' | b'q' | b'B' | b'b')) => {
                let (radix, max_digits) = match r.to_ascii_uppercase() {
                    b'H' => (16, 16),
                    b'Q' => (8, 21),
                    _ => (2, 64),
                };
                let d0 = self.i + 2;
                let mut j = d0;
                while self.s.get(j).map_or(false, |c| (*c as char).is_digit(radix)) {
                    j += 1;
                }
                if j == d0 || j - d0 > max_digits {
                    return Err(Stop::Unknown);
                }
                let v = u64::from_str_radix(std::str::from_utf8(&self.s[d0..j]).unwrap(), radix).map_err(|_| Stop::Unknown)?;
                self.i = j;
                Ok(ETok::NonDec(v))
            }
            Some(b'0') => {
                // indefinite block: everything up to the final NL, which must end the message
                let rest = &self.s[self.i + 2..];
                if rest.last() != Some(&b'\n') {
                    return Err(Stop::Listed("malformed block"));
                }
                let payload = rest[..rest.len() - 1].to_vec();
                self.i = self.s.len();
                Ok(ETok::Block(B(payload)))
            }
            Some(n) if n.is_ascii_digit() => {
                let n = (n - b'0') as usize;
                let l0 = self.i + 2;
                if self.s.len() < l0 + n {
                    return Err(Stop::Listed("truncated block"));
                }
                let len_txt = &self.s[l0..l0 + n];
                if !len_txt.iter().all(|c| c.is_ascii_digit()) {
                    return Err(Stop::Listed("malformed block"));
                }
                let len: usize = std::str::from_utf8(len_txt).unwrap().parse().map_err(|_| Stop::Unknown)?;
                if self.s.len() < l0 + n + len {
                    return Err(Stop::Listed("truncated block"));
                }
                self.i = l0 + n + len;
                Ok(ETok::Block(B(self.s[l0 + n..self.i].to_vec())))
            }
            Some(_) => Err(Stop::Unknown),
        }
    }

    fn datum(&mut self) -> R<ETok> {
        let c = self.peek().unwrap();
        if c.is_ascii_alphabetic() {
            let a = self.i;
            while self.peek().map_or(false, |c| c.is_ascii_alphanumeric() || c == b'_') {
                self.i += 1;
            }
            if self.i - a > 12 {
                return Err(Stop::Listed("character datum longer than 12 characters"));
            }
            return Ok(ETok::Chr(B(self.s[a..self.i].to_vec())));
        }
        match c {
            b'#' => self.hash(),
            b'"' | b'\'' => {
                let a = self.i + 1;
                let mut j = a;
                loop {
                    match self.s.get(j) {
                        None => return Err(Stop::Listed("unterminated string")),
                        Some(x) if *x >= 0x80 => return Err(Stop::Listed("non-ASCII byte in string")),
                        Some(x) if *x == c => {
                            if self.s.get(j + 1) == Some(&c) {
                                j += 2;
                                continue;
                            }
                            break;
                        }
                        Some(_) => j += 1,
                    }
                }
                self.i = j + 1;
                Ok(ETok::Str(B(self.s[a..j].to_vec())))
            }
            b'(' => {
                let a = self.i + 1;
                let mut j = a;
                loop {
                    match self.s.get(j) {
                        None => return Err(Stop::Unknown),
                        Some(b')') => break,
                        Some(x) if *x >= 0x80 => return Err(Stop::Listed("non-ASCII byte in expression")),
                        Some(b';') => return Err(Stop::Listed("';' inside an expression")),
                        Some(b'"' | b'\'' | b'(' | b'#') => return Err(Stop::Unknown),
                        Some(_) => j += 1,
                    }
                }
                self.i = j + 1;
                Ok(ETok::Expr(B(self.s[a..j].to_vec())))
            }
            _ => self.decimal(),
        }
    }

    /// data elements of one unit (the header separator was consumed)
    fn data(&mut self) -> R<()> {
        loop {
            // at the start of a datum
            let before = self.t.len();
            let tok = self.datum()?;
            // what follows decides whether the lexer accepts the element at all
            let end_of_datum = self.i;
            self.skip_ws();
            match self.peek() {
                None | Some(b'\n') | Some(b';') => {
                    self.t.push(tok);
                    // do not consume; the caller handles ';' and the ending. White space before NL/end is fine.
                    if self.peek() == Some(b'\n') && self.i + 1 != self.s.len() {
                        return Err(Stop::Unknown);
                    }
                    let _ = end_of_datum;
                    return Ok(());
                }
                Some(b',') => {
                    self.t.push(tok);
                    self.i += 1;
                    self.skip_ws();
                    match self.peek() {
                        Some(b',') => {
                            return Err(Stop::Listed("doubled ','"));
                        }
                        Some(b';') => return Err(Stop::Listed("trailing ','")),
                        None | Some(b'\n') => return Err(Stop::Unknown), // trailing ',' at the very end: only the dispatcher can reject it
                        Some(c) if is_data_start(c) => {
                            self.t.push(ETok::DataSep);
                        }
                        Some(b':') => {
                            self.t.push(ETok::DataSep);
                            return Err(Stop::Listed("':' in data position"));
                        }
                        Some(c) if c >= 0x80 => {
                            self.t.push(ETok::DataSep);
                            return Err(Stop::Listed("non-ASCII byte between elements"));
                        }
                        _ => return Err(Stop::Unknown),
                    }
                }
                Some(c) if is_data_start(c) => {
                    self.t.truncate(before);
                    return Err(Stop::Listed("missing separator after a datum"));
                }
                Some(b':') => {
                    self.t.truncate(before);
                    return Err(Stop::Listed("':' in data position"));
                }
                Some(c) if c >= 0x80 => {
                    self.t.truncate(before);
                    return Err(Stop::Listed("non-ASCII byte between elements"));
                }
                _ => return Err(Stop::Unknown),
            }
        }
    }

    fn message(&mut self) -> R<()> {
        self.skip_ws();
        loop {
            self.header()?;
            let ws = self.skip_ws();
            if ws {
                self.t.push(ETok::HeaderSep);
            }
            match self.peek() {
                None => return Ok(()),
                Some(b'\n') => {
                    return if self.i + 1 == self.s.len() { Ok(()) } else { Err(Stop::Unknown) };
                }
                Some(b';') => {}
                Some(c) if ws && is_data_start(c) => {
                    self.data()?;
                }
                Some(b',') if ws => return Err(Stop::Listed("',' before the first datum")),
                Some(b':') if ws => return Err(Stop::Listed("':' in data position")),
                Some(c) if ws && c >= 0x80 => return Err(Stop::Listed("non-ASCII byte between elements")),
                _ => return Err(Stop::Unknown),
            }
            // after the unit: end, NL, or ';'
            match self.peek() {
                None => return Ok(()),
                Some(b'\n') => return if self.i + 1 == self.s.len() { Ok(()) } else { Err(Stop::Unknown) },
                Some(b';') => {
                    self.i += 1;
                    self.t.push(ETok::UnitSep);
                    self.skip_ws();
                    if self.at_end() {
                        return Ok(());
                    }
                    if self.peek() == Some(b';') {
                        return Err(Stop::Unknown); // empty unit
                    }
                }
                _ => return Err(Stop::Unknown),
            }
        }
    }
}

pub fn recognise(s: &[u8]) -> Verdict {
    if s.is_empty() {
        return Verdict::Unknown;
    }
    let mut p = P { s, i: 0, t: Vec::new() };
    match p.message() {
        Ok(()) => Verdict::WellFormed(p.t),
        Err(Stop::Listed(what)) => Verdict::Listed { prefix: p.t, what },
        Err(Stop::Unknown) => Verdict::Unknown,
    }
}

#[cfg(test)]
mod tests {
    use super::*;
    fn wf(s: &[u8]) -> Vec<ETok> {
        match recognise(s) {
            Verdict::WellFormed(t) => t,
            v => panic!("{:?} -> {v:?}", String::from_utf8_lossy(s)),
        }
    }
    fn listed(s: &[u8]) -> (&'static str, usize) {
        match recognise(s) {
            Verdict::Listed { prefix, what } => (what, prefix.len()),
            v => panic!("{:?} -> {v:?}", String::from_utf8_lossy(s)),
        }
    }
    #[test]
    fn verdicts() {
        assert_eq!(wf(b"*IDN?").len(), 2);
        assert_eq!(wf(b"A:B 1,'x' ;C\n").len(), 9);
        assert_eq!(wf(b"A 1 V").last(), Some(&ETok::DecSuffix("1".into(), "V".into())));
        assert_eq!(wf(b"A #H1F,#13abc"), vec![ETok::Mnemonic("A".into()), ETok::HeaderSep, ETok::NonDec(31), ETok::DataSep, ETok::Block("abc".into())]);
        assert_eq!(wf(b"A #0ab;\n").last(), Some(&ETok::Block("ab;".into())));
        assert_eq!(listed(b"A ,1").0, "',' before the first datum");
        assert_eq!(listed(b"A 1,,2"), ("doubled ','", 3));
        assert_eq!(listed(b"A 1 2"), ("missing separator after a datum", 2));
        assert_eq!(listed(b"A 'x").0, "unterminated string");
        assert_eq!(listed(b"A #15ab").0, "truncated block");
        assert_eq!(listed(b"A::B").0, "'::' in header");
        assert_eq!(listed(b"*A:B").0, "':' after a common header");
        assert_eq!(listed(b"A,B").0, "',' in header");
        assert_eq!(listed(b"ABCDEFGHIJKLM").0, "mnemonic longer than 12 characters");
        assert_eq!(recognise(b"A 1E"), Verdict::Unknown);
        assert_eq!(recognise(b"A 1 E5"), Verdict::Unknown);
        assert_eq!(recognise(b"A;;B"), Verdict::Unknown);
        assert_eq!(recognise(b"A 1,"), Verdict::Unknown);
        assert_eq!(recognise(b"A\nB"), Verdict::Unknown);
    }
}
