//! Reference mnemonic matcher (SCPI-99 6.2.1 / 6.2.5.2, DESIGN 3.5).
//!
//! A definition has the shape UPPER+ lower* digit*; the trailing digit run is
//! its numeric suffix. A candidate matches iff its alphabetic part (everything
//! before its own trailing digit run) equals, ignoring case, the short form
//! (the upper-case run) or the complete long form, and the suffixes agree,
//! where an absent suffix means 1.

#[derive(Clone, Copy, PartialEq, Eq, Debug)]
pub enum Verdict {
    Match,
    NoMatch,
    /// Suffixes are numerically equal but spelled differently (leading zeros):
    /// the property does not say whether `TRIG01` equals `TRIGger1`.
    NoClaim,
}

/// Split off the trailing digit run.
pub fn split_suffix(s: &[u8]) -> (&[u8], &[u8]) {
    let n = s.iter().rev().take_while(|c| c.is_ascii_digit()).count();
    s.split_at(s.len() - n)
}

/// The short form of the alphabetic part of a definition: everything before
/// its first lower-case letter (upper-case letters and, for names such as
/// `P6V`, `CH1A` or `MY_CMD`, digits and underscores embedded among them).
/// Underscores at the end of that run belong to the optional tail:
/// `SAMP_rate` is addressed as `SAMP` (or `SAMP_RATE`).
pub fn short_of(alpha: &[u8]) -> &[u8] {
    let mut n = upper_run(alpha);
    while n > 0 && alpha[n - 1] == b'_' {
        n -= 1;
    }
    &alpha[..n]
}

/// Length of the leading run of upper-case letters, digits and underscores.
fn upper_run(alpha: &[u8]) -> usize {
    alpha.iter().take_while(|c| c.is_ascii_uppercase() || c.is_ascii_digit() || **c == b'_').count()
}

fn strip_zeros(d: &[u8]) -> &[u8] {
    let n = d.iter().take_while(|c| **c == b'0').count();
    &d[n..]
}

/// Does the alphabetic part `cand` spell the short or the long form of `def_alpha`?
pub fn alpha_matches(def_alpha: &[u8], cand_alpha: &[u8]) -> bool {
    alpha_verdict(def_alpha, cand_alpha) == Verdict::Match
}

/// Match: the short or the long form. NoClaim: the short form followed by some
/// of the underscores that separate it from the optional tail (`SAMP_` for
/// `SAMP_rate`): SCPI does not say whether that spells the short form.
pub fn alpha_verdict(def_alpha: &[u8], cand_alpha: &[u8]) -> Verdict {
    if def_alpha.is_empty() {
        return Verdict::NoMatch;
    }
    let short = short_of(def_alpha);
    if cand_alpha.eq_ignore_ascii_case(def_alpha) || cand_alpha.eq_ignore_ascii_case(short) {
        return Verdict::Match;
    }
    let run = upper_run(def_alpha);
    if cand_alpha.len() > short.len() && cand_alpha.len() <= run && cand_alpha.eq_ignore_ascii_case(&def_alpha[..cand_alpha.len()]) {
        return Verdict::NoClaim;
    }
    Verdict::NoMatch
}

pub fn matches(def: &[u8], cand: &[u8]) -> Verdict {
    let (da, ds) = split_suffix(def);
    let (ca, cs) = split_suffix(cand);
    let av = alpha_verdict(da, ca);
    if av == Verdict::NoMatch {
        return Verdict::NoMatch;
    }
    let ds: &[u8] = if ds.is_empty() { b"1" } else { ds };
    let cs: &[u8] = if cs.is_empty() { b"1" } else { cs };
    if ds == cs {
        av
    } else if strip_zeros(ds) == strip_zeros(cs) {
        Verdict::NoClaim
    } else {
        Verdict::NoMatch
    }
}

/// Suffix-free comparison used for keywords (MIN/MAX/DEF/UP/DOWN/INF/...):
/// exactly the short or the long form, any case. `def` has no digits.
pub fn keyword_matches(def: &[u8], cand: &[u8]) -> bool {
    alpha_matches(def, cand)
}

/// Chimeras of the library's keywords: the head (short form) of one glued to the tail of
/// another (`MAXAULT`, `DEFIMUM`, `INFIMUM`, `ONF`), one keyword followed by another, a
/// keyword doubled - strings that a matcher which checks head and tail independently accepts.
pub fn keyword_chimeras() -> Vec<String> {
    let kws = ["MAXimum", "MINimum", "DEFault", "UP", "DOWN", "INFinity", "NINFinity", "NAN", "ON", "OFF", "AUTO", "ONCE"];
    let mut v: Vec<String> = Vec::new();
    for a in kws {
        let head: String = a.chars().take_while(|c| c.is_ascii_uppercase()).collect();
        for b in kws {
            let tail: String = b.chars().skip_while(|c| c.is_ascii_uppercase()).collect();
            let bhead: String = b.chars().take_while(|c| c.is_ascii_uppercase()).collect();
            for cand in [format!("{head}{tail}"), format!("{head}{bhead}"), format!("{}{}", a, b), format!("{head}{}", b), format!("{bhead}{tail}{tail}")] {
                let c = cand.to_ascii_uppercase();
                if !c.is_empty() && c.len() <= 12 && !v.contains(&c) {
                    v.push(c);
                }
            }
        }
    }
    // a keyword is not a header: the numeric-suffix rule (`1` may be added or omitted) does not apply
    for a in kws {
        let head: String = a.chars().take_while(|c| c.is_ascii_uppercase()).collect();
        for base in [head, a.to_ascii_uppercase()] {
            for sfx in ["1", "01", "2", "0", "_1", "_"] {
                let c = format!("{base}{sfx}");
                if c.len() <= 12 && !v.contains(&c) {
                    v.push(c);
                }
            }
        }
    }
    let lower: Vec<String> = v.iter().map(|s| s.to_ascii_lowercase()).collect();
    v.extend(lower);
    v
}

/// The response short form of a definition: upper-case run plus numeric suffix.
pub fn response_form(def: &[u8]) -> Vec<u8> {
    let (da, ds) = split_suffix(def);
    let mut v = short_of(da).to_vec();
    v.extend_from_slice(ds);
    v
}

#[cfg(test)]
mod tests {
    use super::*;
    #[test]
    fn basics() {
        assert_eq!(matches(b"TRIGger", b"trig"), Verdict::Match);
        assert_eq!(matches(b"TRIGger", b"TRIGGER1"), Verdict::Match);
        assert_eq!(matches(b"TRIGger", b"trigg"), Verdict::NoMatch);
        assert_eq!(matches(b"TRIGger2", b"trig"), Verdict::NoMatch);
        assert_eq!(matches(b"TRIGger1", b"trig01"), Verdict::NoClaim);
        assert_eq!(matches(b"L125", b"l125"), Verdict::Match);
        assert_eq!(matches(b"L125", b"L1"), Verdict::NoMatch);
        assert_eq!(matches(b"ASCii2", b"asc2"), Verdict::Match);
        assert_eq!(matches(b"ASCii", b"asc0"), Verdict::NoMatch);
        assert_eq!(matches(b"P6V", b"p6v"), Verdict::Match);
        assert_eq!(matches(b"P6V", b"p6"), Verdict::NoMatch);
        assert_eq!(matches(b"P25Volt2", b"p25v2"), Verdict::Match);
        assert_eq!(response_form(b"P25Volt2"), b"P25V2".to_vec());
    }
}
