//! Reference recogniser of SCPI-99 8.3.2 channel lists and 8.3.3 numeric lists
//! with three verdicts (DESIGN 4/C19):
//!   WellFormed(entries)          -> iteration must yield exactly these
//!   Listed{prefix, partial}      -> first deviation is one the property lists:
//!                                   the entries before it, optionally the
//!                                   complete part of the broken entry, then Err
//!   Unknown                      -> no claim (lenient corners, exotic spellings)

#[derive(Clone, Debug, PartialEq, Eq)]
pub enum NumEntry {
    Single(Vec<u8>),
    Range(Vec<u8>, Vec<u8>),
}

#[derive(Clone, Debug, PartialEq, Eq)]
pub enum ChanEntry {
    Spec(Vec<i64>),
    Range(Vec<i64>, Vec<i64>),
    /// raw content between the quotes (doubled delimiters kept, like the lexer)
    Path(Vec<u8>),
}

#[derive(Clone, Debug, PartialEq, Eq)]
pub enum Verdict<E> {
    WellFormed(Vec<E>),
    Listed { prefix: Vec<E>, partial: Option<E>, what: &'static str },
    Unknown,
}

/// Length of the NRf literal at the start of `s` (0 if none):
/// `[+-] (d+ [. d*] | . d+) [ (e|E) [+-] d+ ]`. An `e` not followed by a
/// complete exponent makes the literal malformed (returns None).
fn nrf_len(s: &[u8]) -> Option<usize> {
    let mut i = 0;
    if i < s.len() && (s[i] == b'+' || s[i] == b'-') {
        i += 1;
    }
    let d0 = i;
    while i < s.len() && s[i].is_ascii_digit() {
        i += 1;
    }
    let int_digits = i - d0;
    let mut frac_digits = 0;
    if i < s.len() && s[i] == b'.' {
        i += 1;
        let f0 = i;
        while i < s.len() && s[i].is_ascii_digit() {
            i += 1;
        }
        frac_digits = i - f0;
    }
    if int_digits + frac_digits == 0 {
        return None;
    }
    if i < s.len() && (s[i] == b'e' || s[i] == b'E') {
        let mut j = i + 1;
        if j < s.len() && (s[j] == b'+' || s[j] == b'-') {
            j += 1;
        }
        let e0 = j;
        while j < s.len() && s[j].is_ascii_digit() {
            j += 1;
        }
        if j == e0 {
            return None;
        }
        i = j;
    }
    Some(i)
}

fn is_foreign_numeric(c: u8) -> bool {
    // characters that can never be part of a numeric list
    // (white space of any kind is not judged: SCPI expressions may tolerate it)
    !(c.is_ascii_digit() || c.is_ascii_whitespace() || matches!(c, b'+' | b'-' | b'.' | b'e' | b'E' | b',' | b':'))
}

pub fn numeric_list(s: &[u8]) -> Verdict<NumEntry> {
    let mut entries: Vec<NumEntry> = Vec::new();
    let mut i = 0;
    if s.is_empty() {
        return Verdict::Unknown;
    }
    loop {
        // at the start of an entry
        if i >= s.len() {
            return Verdict::Unknown; // trailing comma
        }
        let c = s[i];
        if c == b',' {
            return Verdict::Listed { prefix: entries, partial: None, what: if i == 0 { "leading comma" } else { "doubled comma" } };
        }
        if is_foreign_numeric(c) {
            return Verdict::Listed { prefix: entries, partial: None, what: "foreign character" };
        }
        let Some(n) = nrf_len(&s[i..]) else { return Verdict::Unknown };
        let first = s[i..i + n].to_vec();
        i += n;
        let mut entry = NumEntry::Single(first.clone());
        if i < s.len() && s[i] == b':' {
            let j = i + 1;
            if j >= s.len() {
                return Verdict::Unknown;
            }
            if is_foreign_numeric(s[j]) {
                return Verdict::Listed { prefix: entries, partial: None, what: "foreign character" };
            }
            let Some(m) = nrf_len(&s[j..]) else { return Verdict::Unknown };
            entry = NumEntry::Range(first, s[j..j + m].to_vec());
            i = j + m;
            if i < s.len() && s[i] == b':' {
                return Verdict::Listed { prefix: entries, partial: Some(entry), what: "third range end" };
            }
        }
        // after a complete entry
        if i >= s.len() {
            entries.push(entry);
            return Verdict::WellFormed(entries);
        }
        match s[i] {
            b',' => {
                entries.push(entry);
                i += 1;
            }
            b'+' | b'-' => {
                // missing separator between two entries, the second one signed
                entries.push(entry);
                return Verdict::Listed { prefix: entries, partial: None, what: "missing separator" };
            }
            c if is_foreign_numeric(c) => {
                return Verdict::Listed { prefix: entries, partial: Some(entry), what: "foreign character" };
            }
            _ => return Verdict::Unknown,
        }
    }
}

/// `[+-] d+` with at most 15 digits; returns (value, length).
fn int_at(s: &[u8]) -> Option<(i64, usize)> {
    let mut i = 0;
    let neg = i < s.len() && s[i] == b'-';
    if i < s.len() && (s[i] == b'+' || s[i] == b'-') {
        i += 1;
    }
    let d0 = i;
    while i < s.len() && s[i].is_ascii_digit() {
        i += 1;
    }
    if i == d0 {
        return None;
    }
    // any number of leading zeros, at most 15 significant digits
    let sig = s[d0..i].iter().skip_while(|c| **c == b'0').count();
    if sig > 15 || i - d0 > 60 {
        return None;
    }
    let v: i64 = std::str::from_utf8(&s[d0..i]).ok()?.trim_start_matches('0').parse().unwrap_or(0);
    Some((if neg { -v } else { v }, i))
}

/// spec = int ('!' int)*; returns (dims, length) or None if malformed.
fn spec_at(s: &[u8]) -> Option<(Vec<i64>, usize)> {
    let (v, mut i) = int_at(s)?;
    let mut dims = vec![v];
    while i < s.len() && s[i] == b'!' {
        let (v, n) = int_at(&s[i + 1..])?;
        dims.push(v);
        i += 1 + n;
    }
    Some((dims, i))
}

fn is_foreign_channel(c: u8) -> bool {
    !(c.is_ascii_digit() || c.is_ascii_whitespace() || matches!(c, b'+' | b'-' | b'!' | b',' | b':' | b'"' | b'\''))
}

/// `s` is the expression content including the leading '@'.
pub fn channel_list(s: &[u8]) -> Verdict<ChanEntry> {
    if s.first() != Some(&b'@') {
        return Verdict::Unknown;
    }
    let s = &s[1..];
    if s.is_empty() {
        return Verdict::Unknown;
    }
    let mut entries: Vec<ChanEntry> = Vec::new();
    let mut i = 0;
    loop {
        if i >= s.len() {
            return Verdict::Unknown; // trailing comma
        }
        let c = s[i];
        if c == b',' {
            return Verdict::Listed { prefix: entries, partial: None, what: if i == 0 { "leading comma" } else { "doubled comma" } };
        }
        if is_foreign_channel(c) {
            return Verdict::Listed { prefix: entries, partial: None, what: "foreign character" };
        }
        let entry;
        if c == b'"' || c == b'\'' {
            // path name
            let mut j = i + 1;
            loop {
                if j >= s.len() {
                    return Verdict::Unknown; // unterminated
                }
                if !s[j].is_ascii() {
                    return Verdict::Unknown;
                }
                if s[j] == c {
                    if j + 1 < s.len() && s[j + 1] == c {
                        j += 2;
                        continue;
                    }
                    break;
                }
                j += 1;
            }
            entry = ChanEntry::Path(s[i + 1..j].to_vec());
            i = j + 1;
        } else {
            let Some((a, n)) = spec_at(&s[i..]) else { return Verdict::Unknown };
            i += n;
            if i < s.len() && s[i] == b':' {
                let j = i + 1;
                if j >= s.len() {
                    return Verdict::Unknown;
                }
                if is_foreign_channel(s[j]) {
                    return Verdict::Listed { prefix: entries, partial: None, what: "foreign character" };
                }
                let Some((b, m)) = spec_at(&s[j..]) else { return Verdict::Unknown };
                i = j + m;
                if a.len() != b.len() {
                    // only when the second end is itself cleanly delimited; otherwise the text is
                    // malformed in some other way (e.g. "1!1:1-!") and no claim is made
                    if i < s.len() && s[i] != b',' {
                        return Verdict::Unknown;
                    }
                    return Verdict::Listed { prefix: entries, partial: None, what: "range ends of different dimension" };
                }
                let e = ChanEntry::Range(a, b);
                if i < s.len() && s[i] == b':' {
                    return Verdict::Listed { prefix: entries, partial: Some(e), what: "third range end" };
                }
                entry = e;
            } else {
                entry = ChanEntry::Spec(a);
            }
        }
        if i >= s.len() {
            entries.push(entry);
            return Verdict::WellFormed(entries);
        }
        match s[i] {
            b',' => {
                entries.push(entry);
                i += 1;
            }
            c if is_foreign_channel(c) => {
                return Verdict::Listed { prefix: entries, partial: Some(entry), what: "foreign character" };
            }
            // a blank or TAB directly behind a complete entry: the list syntax has no white space (SCPI-99 8.3.2),
            // and what follows it is never another entry (white space elsewhere - leading, inside a spec, other
            // kinds - stays unjudged)
            b' ' | b'\t' => {
                return Verdict::Listed { prefix: entries, partial: Some(entry), what: "foreign character" };
            }
            _ => return Verdict::Unknown, // glued entries, stray '!', sign after a spec ...
        }
    }
}

#[cfg(test)]
mod tests {
    use super::*;
    fn n(s: &str) -> NumEntry {
        NumEntry::Single(s.as_bytes().to_vec())
    }
    #[test]
    fn numeric() {
        assert_eq!(numeric_list(b"1,2:3"), Verdict::WellFormed(vec![n("1"), NumEntry::Range(b"2".to_vec(), b"3".to_vec())]));
        assert_eq!(numeric_list(b".5,-1e3"), Verdict::WellFormed(vec![n(".5"), n("-1e3")]));
        assert!(matches!(numeric_list(b",1"), Verdict::Listed { what: "leading comma", .. }));
        assert!(matches!(numeric_list(b"1,,2"), Verdict::Listed { what: "doubled comma", .. }));
        assert_eq!(numeric_list(b"1-2"), Verdict::Listed { prefix: vec![n("1")], partial: None, what: "missing separator" });
        assert!(matches!(numeric_list(b"1:2:3"), Verdict::Listed { what: "third range end", .. }));
        assert_eq!(numeric_list(b"1,3B4"), Verdict::Listed { prefix: vec![n("1")], partial: Some(n("3")), what: "foreign character" });
        assert_eq!(numeric_list(b"1,"), Verdict::Unknown);
        assert_eq!(numeric_list(b"1e"), Verdict::Unknown);
        assert_eq!(numeric_list(b"1 2"), Verdict::Unknown);
    }
    #[test]
    fn channel() {
        assert_eq!(
            channel_list(b"@1!12,3!4:5!6,'PO''T'"),
            Verdict::WellFormed(vec![ChanEntry::Spec(vec![1, 12]), ChanEntry::Range(vec![3, 4], vec![5, 6]), ChanEntry::Path(b"PO''T".to_vec())])
        );
        assert!(matches!(channel_list(b"@,1"), Verdict::Listed { what: "leading comma", .. }));
        assert!(matches!(channel_list(b"@1!2:3"), Verdict::Listed { what: "range ends of different dimension", .. }));
        assert!(matches!(channel_list(b"@1:2:3"), Verdict::Listed { what: "third range end", .. }));
        assert!(matches!(channel_list(b"@1,2.5"), Verdict::Listed { what: "foreign character", .. }));
        assert_eq!(channel_list(b"@1!!2"), Verdict::Unknown);
        assert_eq!(channel_list(b"@1-2"), Verdict::Unknown);
        assert_eq!(channel_list(b"@1'a'"), Verdict::Unknown);
        assert_eq!(channel_list(b"@1,"), Verdict::Unknown);
    }
}
