//! Status model (IEEE 488.2 section 11, SCPI-99 section 20; DESIGN 9.3): plain
//! data + transition rules written from the property statements.
use crate::model::esr::class_bit;
use std::collections::VecDeque;

#[derive(Clone, Copy, Debug, PartialEq, Eq, Default)]
pub struct RegSet {
    pub cond: u16,
    pub event: u16,
    pub enable: u16,
    pub ptr: u16,
    pub ntr: u16,
}

impl RegSet {
    pub fn power_on() -> Self {
        RegSet { cond: 0, event: 0, enable: 0, ptr: 0xFFFF, ntr: 0 }
    }
    /// Device reports a new condition: latch filtered transitions.
    pub fn set_condition(&mut self, c: u16) {
        let rise = c & !self.cond;
        let fall = !c & self.cond;
        self.event |= (rise & self.ptr) | (fall & self.ntr);
        self.cond = c;
    }
    /// The crate documents the summary as "any enabled condition bit is set".
    pub fn summary(&self) -> bool {
        self.cond & self.enable & 0x7FFF != 0
    }
}

/// One error-queue item: code, message, extended text.
#[derive(Clone, Debug, PartialEq, Eq)]
pub struct Item {
    pub code: i16,
    pub message: Vec<u8>,
    pub extended: Option<Vec<u8>>,
}

impl Item {
    /// `code,"message[;extended]"` with embedded double quotes doubled.
    pub fn encode(&self) -> Vec<u8> {
        let mut text = self.message.clone();
        if let Some(e) = &self.extended {
            text.push(b';');
            text.extend_from_slice(e);
        }
        let mut out = self.code.to_string().into_bytes();
        out.push(b',');
        out.extend_from_slice(&crate::model::resp::encode_string(&text));
        out
    }
    pub fn no_error() -> Item {
        Item { code: 0, message: b"No error".to_vec(), extended: None }
    }
    pub fn overflow() -> Item {
        Item { code: -350, message: b"Queue overflow".to_vec(), extended: None }
    }
    pub fn opc() -> Item {
        Item { code: -800, message: b"Operation complete".to_vec(), extended: None }
    }
}

#[derive(Clone, Debug)]
pub struct Status {
    pub esr: u8,
    pub ese: u8,
    pub sre: u8,
    pub queue: VecDeque<Item>,
    pub capacity: Option<usize>,
    pub oper: RegSet,
    pub ques: RegSet,
}

impl Status {
    pub fn power_on(capacity: Option<usize>) -> Self {
        Status { esr: 0, ese: 0, sre: 0, queue: VecDeque::new(), capacity, oper: RegSet::power_on(), ques: RegSet::power_on() }
    }
    pub fn push_bounded(&mut self, item: Item) {
        match self.capacity {
            Some(n) if self.queue.len() >= n => {
                *self.queue.back_mut().unwrap() = Item::overflow();
            }
            _ => self.queue.push_back(item),
        }
    }
    /// A message failed with this error: queue it, flag its class.
    pub fn fail(&mut self, item: Item) {
        self.esr |= class_bit(item.code);
        self.push_bounded(item);
    }
    pub fn cls(&mut self) {
        self.esr = 0;
        self.oper.event = 0;
        self.ques.event = 0;
        self.queue.clear();
    }
    pub fn preset(&mut self) {
        for r in [&mut self.oper, &mut self.ques] {
            r.enable = 0;
            r.ptr = 0xFFFF;
            r.ntr = 0;
        }
    }
    pub fn opc(&mut self) {
        self.esr |= 0x01;
        self.push_bounded(Item::opc());
    }
    pub fn stb(&self, mav: bool) -> u8 {
        let mut b = 0u8;
        if !self.queue.is_empty() {
            b |= 1 << 2;
        }
        if self.ques.summary() {
            b |= 1 << 3;
        }
        if mav {
            b |= 1 << 4;
        }
        if self.esr & self.ese != 0 {
            b |= 1 << 5;
        }
        if self.oper.summary() {
            b |= 1 << 7;
        }
        if b & self.sre & !0x40 != 0 {
            b |= 1 << 6;
        }
        b
    }
}
