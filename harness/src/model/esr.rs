//! Error number -> Standard Event Status bit, from the text of property C14
//! (IEEE 488.2 11.5.1 / SCPI-99 21.8).

pub fn class_bit(code: i16) -> u8 {
    let c = code as i32;
    if (-99..=0).contains(&c) {
        0x00
    } else if (-199..=-100).contains(&c) {
        0x20 // command error, bit 5
    } else if (-299..=-200).contains(&c) {
        0x10 // execution error, bit 4
    } else if (-399..=-300).contains(&c) {
        0x08 // device-specific, bit 3
    } else if (-499..=-400).contains(&c) {
        0x04 // query error, bit 2
    } else if (-599..=-500).contains(&c) {
        0x80 // power on, bit 7
    } else if (-699..=-600).contains(&c) {
        0x40 // user request, bit 6
    } else if (-799..=-700).contains(&c) {
        0x02 // request control, bit 1
    } else if (-899..=-800).contains(&c) {
        0x01 // operation complete, bit 0
    } else {
        0x08 // positive or otherwise unclassified: device-specific
    }
}

pub fn is_command_error(code: i16) -> bool {
    (-199..=-100).contains(&code)
}

pub fn is_execution_error(code: i16) -> bool {
    (-299..=-200).contains(&code)
}
