//! Independent recognisers / decoders of IEEE 488.2 response data elements
//! (section 8.7) used by C09, C10 and C13.

/// <NR1 NUMERIC RESPONSE DATA>: optional sign, digits.
pub fn decode_nr1(s: &[u8]) -> Option<i128> {
    let body = s.strip_prefix(b"-").or_else(|| s.strip_prefix(b"+")).unwrap_or(s);
    if body.is_empty() || body.len() > 38 || !body.iter().all(|c| c.is_ascii_digit()) {
        return None;
    }
    std::str::from_utf8(s).ok()?.trim_start_matches('+').parse().ok()
}

/// <HEXADECIMAL|OCTAL|BINARY NUMERIC RESPONSE DATA>: `#H` / `#Q` / `#B` + digits.
pub fn decode_nondecimal(s: &[u8]) -> Option<(u8, u128)> {
    if s.len() < 3 || s[0] != b'#' {
        return None;
    }
    let radix = match s[1] {
        b'H' => 16,
        b'Q' => 8,
        b'B' => 2,
        _ => return None,
    };
    let digits = std::str::from_utf8(&s[2..]).ok()?;
    if digits.starts_with(['+', '-']) {
        return None;
    }
    // 488.2 response data uses upper-case hex digits
    if digits.bytes().any(|c| c.is_ascii_lowercase()) {
        return None;
    }
    u128::from_str_radix(digits, radix).ok().map(|v| (s[1], v))
}

/// NR2 / NR3 in the forgiving form: `[+-] d+ [. d+] [ (E|e) [+-] d+ ]`.
pub fn is_float_text(s: &[u8]) -> bool {
    let mut i = 0;
    if i < s.len() && (s[i] == b'-' || s[i] == b'+') {
        i += 1;
    }
    let d0 = i;
    while i < s.len() && s[i].is_ascii_digit() {
        i += 1;
    }
    if i == d0 {
        return false;
    }
    if i < s.len() && s[i] == b'.' {
        i += 1;
        let f0 = i;
        while i < s.len() && s[i].is_ascii_digit() {
            i += 1;
        }
        if i == f0 {
            return false;
        }
    }
    if i < s.len() && (s[i] == b'e' || s[i] == b'E') {
        i += 1;
        if i < s.len() && (s[i] == b'-' || s[i] == b'+') {
            i += 1;
        }
        let e0 = i;
        while i < s.len() && s[i].is_ascii_digit() {
            i += 1;
        }
        if i == e0 {
            return false;
        }
    }
    i == s.len()
}

/// <STRING RESPONSE DATA>: double-quoted, inner double quotes doubled, 7-bit.
pub fn decode_string(s: &[u8]) -> Option<Vec<u8>> {
    if s.len() < 2 || s[0] != b'"' || s[s.len() - 1] != b'"' {
        return None;
    }
    let inner = &s[1..s.len() - 1];
    let mut out = Vec::with_capacity(inner.len());
    let mut i = 0;
    while i < inner.len() {
        if !inner[i].is_ascii() {
            return None;
        }
        if inner[i] == b'"' {
            if i + 1 < inner.len() && inner[i + 1] == b'"' {
                out.push(b'"');
                i += 2;
                continue;
            }
            return None; // lone quote inside
        }
        out.push(inner[i]);
        i += 1;
    }
    Some(out)
}

/// <DEFINITE LENGTH ARBITRARY BLOCK RESPONSE DATA>: `#` n len payload.
pub fn decode_block(s: &[u8]) -> Option<Vec<u8>> {
    if s.len() < 3 || s[0] != b'#' || !s[1].is_ascii_digit() || s[1] == b'0' {
        return None;
    }
    let n = (s[1] - b'0') as usize;
    if s.len() < 2 + n {
        return None;
    }
    let len_txt = &s[2..2 + n];
    if !len_txt.iter().all(|c| c.is_ascii_digit()) {
        return None;
    }
    let len: usize = std::str::from_utf8(len_txt).ok()?.parse().ok()?;
    if s.len() != 2 + n + len {
        return None;
    }
    Some(s[2 + n..].to_vec())
}

/// <CHARACTER RESPONSE DATA>: letter, then letters / digits / underscore, <= 12.
pub fn is_character_data(s: &[u8]) -> bool {
    !s.is_empty()
        && s.len() <= 12
        && s[0].is_ascii_alphabetic()
        && s.iter().all(|c| c.is_ascii_alphanumeric() || *c == b'_')
}

/// <EXPRESSION RESPONSE DATA>: parenthesised, no quotes / parens / ; inside.
pub fn decode_expression(s: &[u8]) -> Option<&[u8]> {
    if s.len() < 2 || s[0] != b'(' || s[s.len() - 1] != b')' {
        return None;
    }
    let inner = &s[1..s.len() - 1];
    if inner.iter().all(|c| c.is_ascii() && !matches!(c, b'"' | b'\'' | b'(' | b')' | b';')) {
        Some(inner)
    } else {
        None
    }
}

/// Un-double the delimiter inside the payload of a library string token.
pub fn undouble(s: &[u8], q: u8) -> Vec<u8> {
    let mut out = Vec::with_capacity(s.len());
    let mut i = 0;
    while i < s.len() {
        out.push(s[i]);
        if s[i] == q && i + 1 < s.len() && s[i + 1] == q {
            i += 1;
        }
        i += 1;
    }
    out
}

/// Independent encoder of string response data.
pub fn encode_string(s: &[u8]) -> Vec<u8> {
    let mut v = vec![b'"'];
    for &c in s {
        v.push(c);
        if c == b'"' {
            v.push(c);
        }
    }
    v.push(b'"');
    v
}

pub fn encode_block(s: &[u8]) -> Vec<u8> {
    let len = s.len().to_string();
    let mut v = format!("#{}{}", len.len(), len).into_bytes();
    v.extend_from_slice(s);
    v
}

#[cfg(test)]
mod tests {
    use super::*;
    #[test]
    fn basics() {
        assert_eq!(decode_nr1(b"-12"), Some(-12));
        assert_eq!(decode_nr1(b"1.0"), None);
        assert_eq!(decode_nondecimal(b"#HFF"), Some((b'H', 255)));
        assert_eq!(decode_nondecimal(b"#H-1"), None);
        assert!(is_float_text(b"1.0e10") && is_float_text(b"-0.0") && is_float_text(b"9.91E+37"));
        assert!(!is_float_text(b"1.") && !is_float_text(b".5") && !is_float_text(b"1e"));
        assert_eq!(decode_string(b"\"a\"\"b\""), Some(b"a\"b".to_vec()));
        assert_eq!(decode_string(b"\"a\"b\""), None);
        assert_eq!(decode_block(b"#13abc"), Some(b"abc".to_vec()));
        assert_eq!(decode_block(b"#13ab"), None);
        assert_eq!(undouble(b"a''b", b'\''), b"a'b".to_vec());
        assert_eq!(encode_block(b"0123456789"), b"#2100123456789".to_vec());
    }
}
