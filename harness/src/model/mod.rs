//! Reference models, written from the standards / property statements and
//! independent of the code under test.
pub mod mnemonic;
pub mod esr;
