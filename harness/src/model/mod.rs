//! Reference models, written from the standards / property statements and
//! independent of the code under test.
pub mod big;
pub mod dec;
pub mod esr;
pub mod lex488;
pub mod list;
pub mod mnemonic;
#[cfg(feature = "full")]
pub mod path;
pub mod resp;
pub mod status;
