//! C19 — channel lists and numeric lists parse to exactly the SCPI-denoted entries.
use crate::bytes::B;
use crate::engine::{CheckResult, Engine, Obs, PropertyMeta};
use crate::gen::enumstr::Partitioned;
use crate::gen::lit::{render, style_strategy};
use crate::model::list::{self, ChanEntry, NumEntry, Verdict};
use crate::{ensure, fail};
use proptest::prelude::*;
use scpi::parser::expression::channel_list::{self as cl, ChannelList, ChannelSpec};
use scpi::parser::expression::numeric_list::{self as nl, NumericList};
use scpi::parser::tokenizer::Token;
use serde::{Deserialize, Serialize};

pub fn meta() -> PropertyMeta {
    PropertyMeta {
        id: "C19",
        level: "exploration",
        rule: "list ASTs generated from the SCPI 8.3 grammar (numeric lists: 1..8 entries, each an NRf with signs / decimals / leading dot / exponent or a range a:b; channel lists: 1..8 entries, each a 1..3-dimensional spec with values 0..10^6 (some signed), a range of equal dimension, or a quoted path name with any 7-bit content) rendered to text together with the expected entries; the single-point corruptions the property lists (comma removed before a signed entry, leading comma, doubled comma, range ends of different dimension, third range end, foreign character #, %, letter) applied at a generated position; plus ALL strings up to length 6 (quick) / 8 (thorough) over the 14-symbol list alphabet judged by a reference recogniser with three verdicts. Added: lists of 2^8 / 2^16 +- 1 entries, ranges, path names; specs of 255..300 dimensions; zero-padded numbers of every width 1..300. Path names of 250 .. 1 000 000 bytes in either quote style with doubled quotes at the start, the end and the 4096 mark. Non-trivial: list with a range and (a multi-dimensional spec or a signed entry), or any corrupted list, or an enumerated string with a definite verdict and at least two entries.",
        assumptions: &[
            "lenient acceptances the property does not list (trailing comma, path name glued to a spec, white space, '!!') are not judged",
            "for a foreign character or third range end inside entry k the complete part of entry k may be yielded before the error",
        ],
        run,
    }
}

#[derive(Clone, Debug, Serialize, Deserialize, Hash)]
pub struct Case {
    /// true: channel list (text includes the leading @), false: numeric list
    pub channel: bool,
    pub text: B,
}

#[derive(Debug, PartialEq)]
enum End {
    Done,
    Error(i16),
}

fn show(b: &[u8]) -> String {
    String::from_utf8_lossy(b).into_owned()
}

fn run_numeric(text: &[u8]) -> (Vec<Result<NumEntry, String>>, End) {
    let mut out = Vec::new();
    let it = NumericList::new(text);
    for (k, item) in it.enumerate() {
        if k > text.len() + 2 {
            return (out, End::Error(i16::MIN));
        }
        match item {
            Ok(nl::Token::Numeric(Token::DecimalNumericProgramData(a))) => out.push(Ok(NumEntry::Single(a.to_vec()))),
            Ok(nl::Token::NumericRange(Token::DecimalNumericProgramData(a), Token::DecimalNumericProgramData(b))) => out.push(Ok(NumEntry::Range(a.to_vec(), b.to_vec()))),
            Ok(other) => out.push(Err(format!("{other:?}"))),
            Err(e) => return (out, End::Error(e.get_code())),
        }
    }
    (out, End::Done)
}

fn spec_values(spec: ChannelSpec) -> Result<Vec<i64>, String> {
    let mut v = Vec::new();
    for (k, d) in spec.into_iter().enumerate() {
        if k > 200_000 {
            return Err("spec iterator does not terminate".into());
        }
        match d {
            Ok(x) => v.push(x as i64),
            Err(e) => return Err(format!("dimension {k} fails with {e:?}")),
        }
    }
    if v.len() != spec.dimension() {
        return Err(format!("dimension() = {} but iteration yields {} values {v:?}", spec.dimension(), v.len()));
    }
    Ok(v)
}

fn run_channel(text: &[u8]) -> Option<(Vec<Result<ChanEntry, String>>, End, Vec<ChannelSpec<'_>>)> {
    let it = ChannelList::new(text)?;
    let mut out = Vec::new();
    let mut specs = Vec::new();
    for (k, item) in it.enumerate() {
        if k > text.len() + 2 {
            return Some((out, End::Error(i16::MIN), specs));
        }
        match item {
            Ok(cl::Token::ChannelSpec(s)) => {
                specs.push(s);
                out.push(spec_values(s).map(ChanEntry::Spec));
            }
            Ok(cl::Token::ChannelRange(a, b)) => {
                specs.push(a);
                specs.push(b);
                out.push(match (spec_values(a), spec_values(b)) {
                    (Ok(a), Ok(b)) => Ok(ChanEntry::Range(a, b)),
                    (Err(e), _) | (_, Err(e)) => Err(e),
                });
            }
            Ok(cl::Token::PathName(p)) => out.push(Ok(ChanEntry::Path(p.to_vec()))),
            Ok(other) => out.push(Err(format!("{other:?}"))),
            Err(e) => return Some((out, End::Error(e.get_code()), specs)),
        }
    }
    Some((out, End::Done, specs))
}

fn judge<E: std::fmt::Debug + PartialEq>(text: &[u8], verdict: &Verdict<E>, got: &[Result<E, String>], end: &End) -> CheckResult {
    match verdict {
        Verdict::Unknown => Ok(()),
        Verdict::WellFormed(want) => {
            for (k, w) in want.iter().enumerate() {
                match got.get(k) {
                    Some(Ok(g)) if g == w => {}
                    Some(g) => fail!("wrong-entry", "{:?}: entry {k} is {g:?}, the text denotes {w:?}", show(text)),
                    None => fail!("missing-entry", "{:?}: iteration ended with {end:?} after {} entries, the text denotes {} ({w:?} next)", show(text), got.len(), want.len()),
                }
            }
            ensure!(got.len() == want.len(), "extra-entry", "{:?}: {} entries yielded, the text denotes {}: extra {:?}", show(text), got.len(), want.len(), got.get(want.len()));
            ensure!(*end == End::Done, "spurious-error", "{:?}: well-formed list ends with {end:?}", show(text));
            Ok(())
        }
        Verdict::Listed { prefix, partial, what } => {
            for (k, w) in prefix.iter().enumerate() {
                match got.get(k) {
                    Some(Ok(g)) if g == w => {}
                    Some(g) => fail!("wrong-entry", "{:?} ({what}): entry {k} is {g:?}, expected {w:?} before the error", show(text)),
                    None => {
                        if matches!(end, End::Error(_)) {
                            fail!("early-error", "{:?} ({what}): error after {} entries, {} precede the corruption", show(text), got.len(), prefix.len());
                        }
                        fail!("missing-entry", "{:?} ({what}): iteration ended after {} entries", show(text), got.len());
                    }
                }
            }
            let extra = &got[prefix.len()..];
            let ok_extra = match (extra, partial) {
                ([], _) => true,
                ([Ok(g)], Some(p)) => g == p,
                _ => false,
            };
            ensure!(ok_extra, "corruption-accepted", "{:?} ({what}): yielded {extra:?} at/after the corruption point", show(text));
            ensure!(matches!(end, End::Error(_)), "corruption-accepted", "{:?} ({what}): iteration ended without an error", show(text));
            Ok(())
        }
    }
}

fn check_conversions(text: &[u8], specs: &[ChannelSpec]) -> CheckResult {
    for s in specs {
        let vals = match spec_values(*s) {
            Ok(v) => v,
            Err(e) => fail!("spec-iteration", "{:?}: {e}", show(text)),
        };
        // the iterator's other entry points (overridable Iterator methods and the adaptors built on
        // them) yield the same dimension values as repeated next()
        if vals.len() <= 16 {
            let n = vals.len();
            let ok = |r: Option<Result<isize, _>>, i: usize| -> bool { matches!((r, vals.get(i)), (Some(Ok(x)), Some(w)) if x as i64 == *w) || (matches!(r, None) && i >= n) };
            ensure!((*s).into_iter().count() == n && (*s).len() == n, "spec-iterator-law", "{:?}: spec {vals:?}: count() / len() disagree with iteration", show(text));
            ensure!(ok((*s).into_iter().last(), n.wrapping_sub(1)) || n == 0, "spec-iterator-law", "{:?}: spec {vals:?}: last() differs", show(text));
            for taken in 0..=n.min(3) {
                for k in 0..=n {
                    let mut it = (*s).into_iter();
                    for _ in 0..taken {
                        let _ = it.next();
                    }
                    let r = it.nth(k);
                    ensure!(ok(r, taken + k), "spec-iterator-law", "{:?}: spec {vals:?}: nth({k}) after {taken} next() gave {r:?}", show(text));
                    let r2 = it.next();
                    ensure!(ok(r2, taken + k + 1), "spec-iterator-law", "{:?}: spec {vals:?}: next() after nth({k}) after {taken} next() gave {r2:?}", show(text));
                }
                let mut it = (*s).into_iter();
                for _ in 0..taken {
                    let _ = it.next();
                }
                let stepped: Vec<i64> = it.step_by(2).filter_map(|r| r.ok()).map(|x| x as i64).collect();
                let want: Vec<i64> = vals.iter().skip(taken).step_by(2).copied().collect();
                ensure!(stepped == want, "spec-iterator-law", "{:?}: spec {vals:?}: step_by(2) after {taken} next() gave {stepped:?}", show(text));
                let mut it = (*s).into_iter();
                for _ in 0..taken {
                    let _ = it.next();
                }
                let skipped: Vec<i64> = it.skip(1).filter_map(|r| r.ok()).map(|x| x as i64).collect();
                let want: Vec<i64> = vals.iter().skip(taken + 1).copied().collect();
                ensure!(skipped == want, "spec-iterator-law", "{:?}: spec {vals:?}: skip(1) after {taken} next() gave {skipped:?}", show(text));
            }
        }
        let nonneg = vals.iter().all(|v| *v >= 0);
        let r1: Result<isize, _> = (*s).try_into();
        let r1u: Result<usize, _> = (*s).try_into();
        let r2: Result<(isize, isize), _> = (*s).try_into();
        let r2u: Result<(usize, usize), _> = (*s).try_into();
        let r3: Result<(isize, isize, isize), _> = (*s).try_into();
        let r3u: Result<(usize, usize, usize), _> = (*s).try_into();
        let v = |i: usize| vals[i] as isize;
        match vals.len() {
            1 => {
                ensure!(r1 == Ok(v(0)), "spec-conversion", "{:?}: spec {vals:?} as isize = {r1:?}", show(text));
                ensure!(r1u.is_ok() == nonneg && (!nonneg || r1u == Ok(v(0) as usize)), "spec-conversion", "{:?}: spec {vals:?} as usize = {r1u:?}", show(text));
                ensure!(r2.is_err() && r3.is_err() && r2u.is_err() && r3u.is_err(), "spec-arity", "{:?}: 1-dimensional spec converts to a tuple", show(text));
            }
            2 => {
                ensure!(r2 == Ok((v(0), v(1))), "spec-conversion", "{:?}: spec {vals:?} as (isize, isize) = {r2:?}", show(text));
                ensure!(r2u.is_ok() == nonneg && (!nonneg || r2u == Ok((v(0) as usize, v(1) as usize))), "spec-conversion", "{:?}: spec {vals:?} as (usize, usize) = {r2u:?}", show(text));
                ensure!(r1.is_err() && r3.is_err() && r1u.is_err() && r3u.is_err(), "spec-arity", "{:?}: 2-dimensional spec converts with wrong arity", show(text));
            }
            3 => {
                ensure!(r3 == Ok((v(0), v(1), v(2))), "spec-conversion", "{:?}: spec {vals:?} as triple = {r3:?}", show(text));
                ensure!(r3u.is_ok() == nonneg && (!nonneg || r3u == Ok((v(0) as usize, v(1) as usize, v(2) as usize))), "spec-conversion", "{:?}: spec {vals:?} as unsigned triple = {r3u:?}", show(text));
                ensure!(r1.is_err() && r2.is_err() && r1u.is_err() && r2u.is_err(), "spec-arity", "{:?}: 3-dimensional spec converts with wrong arity", show(text));
            }
            _ => {
                ensure!(r1.is_err() && r2.is_err() && r3.is_err(), "spec-arity", "{:?}: {}-dimensional spec converts", show(text), vals.len());
            }
        }
    }
    Ok(())
}

fn classify<E>(v: &Verdict<E>, n_entries: usize, obs: &Obs) -> bool {
    match v {
        Verdict::WellFormed(_) => {
            obs.label("verdict: well-formed");
            n_entries >= 2
        }
        Verdict::Listed { what, .. } => {
            obs.label("verdict: listed corruption");
            obs.label(match *what {
                "leading comma" => "corruption: leading comma",
                "doubled comma" => "corruption: doubled comma",
                "missing separator" => "corruption: missing separator",
                "third range end" => "corruption: third range end",
                "range ends of different dimension" => "corruption: range dimension mismatch",
                _ => "corruption: foreign character",
            });
            true
        }
        Verdict::Unknown => {
            obs.label("verdict: no claim");
            false
        }
    }
}

pub fn check(case: &Case, obs: &Obs) -> CheckResult {
    let text = &case.text[..];
    if case.channel {
        let verdict = list::channel_list(text);
        let n = if let Verdict::WellFormed(e) = &verdict { e.len() } else { 0 };
        let nt = classify(&verdict, n, obs);
        if let Verdict::WellFormed(e) = &verdict {
            let multi = e.iter().any(|x| matches!(x, ChanEntry::Spec(d) | ChanEntry::Range(d, _) if d.len() > 1));
            let range = e.iter().any(|x| matches!(x, ChanEntry::Range(..)));
            obs.label_if(multi, "multi-dimensional spec");
            obs.label_if(range, "has range");
            obs.label("well-formed channel list");
        }
        obs.nontrivial_if(nt, case);
        if matches!(verdict, Verdict::Unknown) {
            // no claim for this text; whether it is processed totally is C01's business
            return Ok(());
        }
        let Some((got, end, specs)) = run_channel(text) else {
            ensure!(matches!(verdict, Verdict::Unknown), "not-a-channel-list", "{:?} is not recognised as a channel list", show(text));
            return Ok(());
        };
        judge(text, &verdict, &got, &end)?;
        if matches!(verdict, Verdict::WellFormed(_)) {
            check_conversions(text, &specs)?;
            // the same list through the lexer, where the lexer admits the text
            let mut msg = vec![b'('];
            msg.extend_from_slice(text);
            msg.push(b')');
            if let Some(tok @ Token::ExpressionProgramData(_)) = crate::conv::lex_single(&msg) {
                match ChannelList::try_from(tok) {
                    Ok(it) => {
                        let n_lex = it.take(text.len() + 2).filter(|r| r.is_ok()).count();
                        ensure!(n_lex == got.len(), "lexer-path-differs", "{:?}: {n_lex} entries through the lexer, {} directly", show(text), got.len());
                    }
                    Err(e) => fail!("lexer-path-differs", "{:?}: ChannelList::try_from fails with {}", show(text), e.get_code()),
                }
                obs.label("also through the lexer");
            }
        }
        Ok(())
    } else {
        let verdict = list::numeric_list(text);
        let n = if let Verdict::WellFormed(e) = &verdict { e.len() } else { 0 };
        let nt = classify(&verdict, n, obs);
        if let Verdict::WellFormed(e) = &verdict {
            obs.label("well-formed numeric list");
            obs.label_if(e.iter().any(|x| matches!(x, NumEntry::Range(..))), "has range");
        }
        obs.nontrivial_if(nt, case);
        if matches!(verdict, Verdict::Unknown) {
            return Ok(());
        }
        let (got, end) = run_numeric(text);
        judge(text, &verdict, &got, &end)?;
        if matches!(verdict, Verdict::WellFormed(_)) {
            let mut msg = vec![b'('];
            msg.extend_from_slice(text);
            msg.push(b')');
            if let Some(tok @ Token::ExpressionProgramData(_)) = crate::conv::lex_single(&msg) {
                match NumericList::try_from(tok) {
                    Ok(it) => {
                        let n_lex = it.take(text.len() + 2).filter(|r| r.is_ok()).count();
                        ensure!(n_lex == got.len(), "lexer-path-differs", "{:?}: {n_lex} entries through the lexer, {} directly", show(text), got.len());
                    }
                    Err(e) => fail!("lexer-path-differs", "{:?}: NumericList::try_from fails with {}", show(text), e.get_code()),
                }
                obs.label("also through the lexer");
            }
        }
        Ok(())
    }
}

// ---------------------------------------------------------------- generators

fn nrf() -> impl Strategy<Value = String> {
    (any::<bool>(), "[0-9]{1,6}", 0u32..4, style_strategy(6)).prop_map(|(neg, d, scale, st)| render(neg, &d, scale.min(d.len() as u32), &st))
}

fn num_entry() -> impl Strategy<Value = (String, bool)> {
    prop_oneof![
        3 => nrf().prop_map(|a| (a, false)),
        2 => (nrf(), nrf()).prop_map(|(a, b)| (format!("{a}:{b}"), true)),
    ]
}

fn chan_int() -> impl Strategy<Value = String> {
    prop_oneof![
        6 => (0u32..1_000_000).prop_map(|v| v.to_string()),
        3 => (0u32..20).prop_map(|v| v.to_string()),
        1 => (0u32..1000).prop_map(|v| format!("-{v}")),
        1 => (0u32..1000).prop_map(|v| format!("+{v}")),
        1 => (0u32..100).prop_map(|v| format!("00{v}")),
        // long zero-padded channel numbers (longer than any isize literal)
        1 => (0u32..100000, 15usize..40, prop_oneof![Just(""), Just("-"), Just("+")]).prop_map(|(v, z, sign)| format!("{sign}{}{v}", "0".repeat(z))),
    ]
}

fn spec(dim: usize) -> impl Strategy<Value = String> {
    proptest::collection::vec(chan_int(), dim).prop_map(|v| v.join("!"))
}

fn chan_entry() -> impl Strategy<Value = String> {
    prop_oneof![
        4 => prop_oneof![8 => 1usize..4, 1 => 4usize..7].prop_flat_map(spec),
        3 => prop_oneof![8 => 1usize..4, 1 => 4usize..7].prop_flat_map(|d| (spec(d), spec(d))).prop_map(|(a, b)| format!("{a}:{b}")),
        2 => (any::<bool>(), "[ -~]{0,10}").prop_map(|(dq, content)| {
            let q = if dq { '"' } else { '\'' };
            let mut s = String::new();
            s.push(q);
            for c in content.chars() {
                s.push(c);
                if c == q {
                    s.push(c);
                }
            }
            s.push(q);
            s
        }),
    ]
}

#[derive(Clone, Debug)]
enum Corrupt {
    None,
    LeadingComma,
    DoubledComma(usize),
    ThirdRangeEnd(usize),
    Foreign(usize, u8),
    /// numeric lists: drop the comma before a signed entry; channel lists: make range ends differ in dimension
    Special(usize),
}

fn corrupt() -> impl Strategy<Value = Corrupt> {
    prop_oneof![
        6 => Just(Corrupt::None),
        1 => Just(Corrupt::LeadingComma),
        1 => (0usize..64).prop_map(Corrupt::DoubledComma),
        1 => (0usize..64).prop_map(Corrupt::ThirdRangeEnd),
        2 => (0usize..64, prop_oneof![Just(b'#'), Just(b'%'), Just(b'x'), Just(b'Q'), Just(b'$'), Just(b'=')]).prop_map(|(p, c)| Corrupt::Foreign(p, c)),
        2 => (0usize..64).prop_map(Corrupt::Special),
    ]
}

fn assemble(channel: bool, entries: Vec<String>, c: Corrupt) -> Vec<u8> {
    let mut entries = entries;
    let n = entries.len();
    let mut lead = "";
    let mut join_override: Option<(usize, &str)> = None; // separator before entry i
    match c {
        Corrupt::None => {}
        Corrupt::LeadingComma => lead = ",",
        Corrupt::DoubledComma(i) => {
            if n >= 2 {
                join_override = Some((1 + i % (n - 1), ",,"));
            } else {
                lead = ",";
            }
        }
        Corrupt::ThirdRangeEnd(i) => {
            // turn some range (or single) into a:b:c
            let k = i % n;
            let e = entries[k].clone();
            if !e.starts_with(['"', '\'']) {
                let tail = e.rsplit(':').next().unwrap().to_string();
                entries[k] = if e.contains(':') { format!("{e}:{tail}") } else { format!("{e}:{tail}:{tail}") };
            }
        }
        Corrupt::Foreign(p, ch) => {
            let k = p % n;
            if !entries[k].starts_with(['"', '\'']) {
                let pos = (p / n) % (entries[k].len() + 1);
                entries[k].insert(pos, ch as char);
            }
        }
        Corrupt::Special(i) => {
            if channel {
                let k = i % n;
                if let Some((a, b)) = entries[k].clone().split_once(':') {
                    entries[k] = format!("{a}!7:{b}");
                }
            } else if n >= 2 {
                let k = 1 + i % (n - 1);
                if !entries[k].starts_with(['+', '-']) {
                    entries[k] = format!("-{}", entries[k].trim_start_matches(['+', '-']));
                }
                join_override = Some((k, ""));
            }
        }
    }
    let mut s = String::new();
    if channel {
        s.push('@');
    }
    s.push_str(lead);
    for (i, e) in entries.iter().enumerate() {
        if i > 0 {
            match join_override {
                Some((k, sep)) if k == i => s.push_str(sep),
                _ => s.push(','),
            }
        }
        s.push_str(e);
    }
    s.into_bytes()
}

pub fn case_strategy() -> impl Strategy<Value = Case> {
    prop_oneof![
        (proptest::collection::vec(num_entry().prop_map(|(s, _)| s), 1..8), corrupt()).prop_map(|(entries, c)| Case { channel: false, text: assemble(false, entries, c).into() }),
        (proptest::collection::vec(chan_entry(), 1..8), corrupt()).prop_map(|(entries, c)| Case { channel: true, text: assemble(true, entries, c).into() }),
    ]
}

pub const LIST_ALPHABET: &[u8] = b"@10!:,-+'\".e B";

fn run(e: &Engine) {
    // regression inputs from the design phase
    let fixed: Vec<Case> = [
        (true, "@1!2"), (true, "@1!2!3"), (true, "@1!12,3!4:5!6,'POTATO'"), (true, "@-1!+2:3!4"), (false, "1-2"), (false, ".5"), (false, "1,.5"), (false, "3.1415,1.1:3.9e6"),
        (false, ",1,2:5"), (false, "1,,2:5"), (true, "@1,2,3"), (true, "@\"a\"\"b\",1"),
    ]
    .iter()
    .map(|(c, t)| Case { channel: *c, text: (*t).into() })
    .collect();
    e.fixed("regression-inputs", fixed, check);
    e.proptest("generated-and-corrupted-lists", e.tier.pick(600_000, 20_000_000), case_strategy, check);
    e.require_fraction("multi-dimensional spec", "well-formed channel list", 0.25);
    e.require_fraction("has range", "verdict: well-formed", 0.25);
    e.require_fraction("verdict: listed corruption", "verdict: well-formed", 0.2);
    // sizes at 2^8 and 2^16: that many entries / ranges / dimensions, and zero-padded numbers of every width up to 300
    if !cfg!(debug_assertions) {
        let mut big: Vec<Case> = Vec::new();
        let rep = |pre: &str, item: &str, n: usize, post: &str| -> B { B(format!("{pre}{}{post}", item.repeat(n)).into_bytes()) };
        for n in [255usize, 256, 257, 65_535, 65_536, 65_537, 70_000] {
            big.push(Case { channel: false, text: rep("", "1,", n, "2") });
            big.push(Case { channel: false, text: rep("", "1:2,", n, "-3.5e2") });
            big.push(Case { channel: true, text: rep("@", "1,", n, "2") });
            big.push(Case { channel: true, text: rep("@", "1!2:3!4,", n, "5!6") });
            big.push(Case { channel: true, text: rep("@", "'p',", n, "7") });
            big.push(Case { channel: false, text: rep("", "1,", n, ",2") });
            big.push(Case { channel: true, text: rep("@", "1,", n, "2:3:4") });
        }
        for n in [255usize, 256, 257, 300, 65_534, 65_535, 65_536, 65_537, 70_000] {
            big.push(Case { channel: true, text: rep("@", "1!", n, "2") });
            if n > 1000 {
                // ... and as one end of a range whose other end has one dimension / the same number
                big.push(Case { channel: true, text: B(format!("@5:{}2", "1!".repeat(n)).into_bytes()) });
                big.push(Case { channel: true, text: B(format!("@{}2:{}3", "1!".repeat(n), "4!".repeat(n)).into_bytes()) });
            }
        }
        // path names of every length around 2^8, 2^12, 2^16 and far beyond, in either quote style, alone and
        // between other entries, with a doubled quote at the very end, at the start and right at the size mark
        for n in (250usize..=262).chain(1020..=1030).chain(4090..=4100).chain(8190..=8194).chain([32_767, 32_768, 65_534, 65_535, 65_536, 65_537, 70_000, 1_000_000]) {
            for q in ['\'', '"'] {
                let name = "n".repeat(n);
                big.push(Case { channel: true, text: B(format!("@{q}{name}{q}").into_bytes()) });
                big.push(Case { channel: true, text: B(format!("@1!2,{q}{name}{q},3:4").into_bytes()) });
                let dq = format!("{q}{q}");
                big.push(Case { channel: true, text: B(format!("@{q}{}{dq}{q},5", "n".repeat(n - 1)).into_bytes()) });
                big.push(Case { channel: true, text: B(format!("@{q}{dq}{}{q}", "n".repeat(n - 1)).into_bytes()) });
                big.push(Case { channel: true, text: B(format!("@{q}{}{dq}tail{q},6", "n".repeat(n.min(4096))).into_bytes()) });
            }
        }
        for w in 1..=300usize {
            let z = "0".repeat(w);
            big.push(Case { channel: true, text: B(format!("@{z}7,{z}1!{z}12:-{z}2!+{z}3").into_bytes()) });
            big.push(Case { channel: false, text: B(format!("{z}7,-{z}1.5:{z}2e{z}1").into_bytes()) });
        }
        e.fixed("sizes-at-2^8-2^16-and-padded-numbers", big, check);
    }
    // exhaustive: all strings over the list alphabet, as numeric list and (with @ prefix semantics) channel list
    let max_len = e.tier.pick(6, 8);
    let p = Partitioned { alpha: LIST_ALPHABET, max_len, prefix_len: 2 };
    let pr = &p;
    e.enumerate::<Case, _, _>(
        "all-strings-over-list-alphabet",
        p.parts() * 2,
        move |part, f| {
            let channel = part % 2 == 1;
            pr.run(part / 2, &mut |s| {
                if channel {
                    // channel lists must start with '@': enumerate the tail
                    let mut t = Vec::with_capacity(s.len() + 1);
                    t.push(b'@');
                    t.extend_from_slice(s);
                    f(Case { channel: true, text: t.into() })
                } else {
                    f(Case { channel: false, text: s.into() })
                }
            });
        },
        check,
    );
    if e.tier == crate::engine::Tier::Thorough {
        e.fuzz(
            "fuzz-c19_lists",
            "c19_lists",
            6_000_000,
            |b| match b.split_first() {
                Some((k, rest)) if k & 1 == 1 => {
                    let mut t = vec![b'@'];
                    t.extend_from_slice(rest);
                    Case { channel: true, text: B(t) }
                }
                Some((_, rest)) => Case { channel: false, text: B(rest.to_vec()) },
                None => Case { channel: false, text: B(vec![]) },
            },
            check,
        );
    }
}
