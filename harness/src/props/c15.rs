//! C15 — status event registers latch filtered condition transitions until read.
use crate::engine::{CheckResult, Engine, Obs, PropertyMeta};
use crate::props::status_common::*;
use proptest::prelude::*;

pub fn meta() -> PropertyMeta {
    PropertyMeta {
        id: "C15",
        level: "exploration",
        rule: "histories of 1..40 steps interleaving, for both OPERation and QUEStionable: device-side set_condition(any u16) / set_condition_bits / clear_condition_bits / clear_event / ScpiDevice::preset_register::<REG>(), with get_register / get_register_summary / get_summary() and get_condition_bit() compared after every step; ENABle / PTRansition / NTRansition writes of 0..65535 (decimal, #H, NR2; 65536 and -1 as rejects) and their queries; [:EVENt]?, :CONDition?, *CLS, STATus:PRESet; values biased to single bits, 0x7FFF, 0x8000, 0xFFFF. Oracle: per-bit latch model (event |= (rise & ptr) | (fall & ntr) with the filters in force at that moment); responses and the raw EventRegister fields compared after every step; both register sets run in one history so that independence is checked. Added: per bit (all 16, both registers) EVERY (PTR, NTR, ENABle) setting x EVERY sequence of up to 5 (6) operations over {set bit, clear bit, read event, read condition, *STB?}. Non-trivial: a condition bit toggles at least twice between two event reads, or a filter is written between two transitions of the same register.",
        assumptions: &["STATus:PRESet sets enable 0, PTR all ones, NTR 0 and nothing else (the condition register is device state)"],
        run,
    }
}

pub fn check(h: &History, obs: &Obs) -> CheckResult {
    let scope = Scope { cls_agnostic: false, queue_and_esr: false, registers: true, status_byte: false };
    // classification: toggles between reads, filter writes between transitions
    let mut toggles = [0u32; 2];
    let mut double_toggle = false;
    let mut filter_between = false;
    let mut seen_transition = [false; 2];
    for s in &h.steps {
        for ev in &s.events {
            let r = match ev {
                DevEvent::SetCond(r, _) | DevEvent::SetBits(r, _) | DevEvent::ClearBits(r, _) => *r as usize,
                DevEvent::ClearEvent(r) => {
                    toggles[*r as usize] = 0;
                    continue;
                }
                DevEvent::PresetOne(r) => {
                    if seen_transition[*r as usize] {
                        filter_between = true;
                    }
                    continue;
                }
            };
            toggles[r] += 1;
            if toggles[r] >= 2 {
                double_toggle = true;
            }
            seen_transition[r] = true;
        }
        for (u, _) in &s.units {
            match u {
                U::Ev(r) => toggles[*r as usize] = 0,
                U::Ptr(r, _) | U::Ntr(r, _) => {
                    if seen_transition[*r as usize] {
                        filter_between = true;
                    }
                }
                U::Pres => obs.label("history with STATus:PRESet"),
                _ => {}
            }
        }
    }
    obs.label("history");
    obs.label_if(double_toggle, "double toggle between event reads");
    obs.label_if(filter_between, "filter written between transitions");
    obs.nontrivial_if(double_toggle || filter_between, h);
    run_history(h, scope, obs)
}

/// A device that samples its hardware condition when the status subsystem asks for mutable
/// access to the register: the transition happens *during* the event query. It must be
/// reported by that read or the next one (latched until read, never lost), and be gone after.
#[derive(Clone, Copy, Debug, serde::Serialize, serde::Deserialize, Hash)]
pub struct Lazy {
    pub ques: bool,
    pub ptr: u16,
    pub ntr: u16,
    pub old: u16,
    pub new: u16,
}

pub fn check_lazy(c: &Lazy, obs: &Obs) -> CheckResult {
    use crate::dev488::{MinDev, MIN_TREE};
    use crate::{ensure, fail};
    use scpi::Context;
    let name = if c.ques { "QUES" } else { "OPER" };
    let mut dev = MinDev::new(false);
    let mut run = |dev: &mut MinDev, msg: String| -> Result<String, crate::engine::Failure> {
        let mut ctx = Context::default();
        let mut resp: Vec<u8> = Vec::new();
        match MIN_TREE.run(msg.as_bytes(), dev, &mut ctx, &mut resp) {
            Ok(()) => Ok(String::from_utf8_lossy(&resp).trim().to_string()),
            Err(e) => Err(crate::engine::Failure::new("lazy-device-error", format!("{msg:?} fails with {}", e.get_code()))),
        }
    };
    run(&mut dev, format!("STAT:{name}:PTR {};NTR {}", c.ptr & 0x7FFF, c.ntr & 0x7FFF))?;
    if c.ques { dev.questionable.set_condition(c.old) } else { dev.operation.set_condition(c.old) }
    run(&mut dev, format!("STAT:{name}?"))?; // forget what the initial condition latched
    if c.ques { dev.pending_ques = Some(c.new) } else { dev.pending_oper = Some(c.new) }
    let parse = |s: &str| -> Result<u16, crate::engine::Failure> { s.parse::<u16>().map_err(|_| crate::engine::Failure::new("lazy-device-error", format!("event query answered {s:?}"))) };
    let r1 = parse(&run(&mut dev, format!("STAT:{name}?"))?)?;
    let r2 = parse(&run(&mut dev, format!("STAT:{name}:EVEN?"))?)?;
    let r3 = parse(&run(&mut dev, format!("STAT:{name}?"))?)?;
    let rise = !c.old & c.new;
    let fall = c.old & !c.new;
    let want = ((rise & c.ptr) | (fall & c.ntr)) & 0x7FFF;
    obs.label("device sampling its condition inside register_mut()");
    obs.nontrivial_if(want != 0, c);
    ensure!(r1 | r2 == want, "event-lost", "{name} ptr={:#06x} ntr={:#06x} condition {:#06x} -> {:#06x} sampled during the event query: the two following reads return {r1} and {r2}, the filtered transition is {want}", c.ptr, c.ntr, c.old, c.new);
    ensure!(r1 & r2 == 0 && r3 == 0, "event-not-cleared", "{name}: reads after one sampled transition return {r1}, {r2}, {r3}");
    if r1 == 0 && want != 0 {
        // reported one read late: allowed by "latched until read", but then the first read saw nothing to clear
        obs.label("transition reported by the second read");
    }
    let _ = fail_unused_lazy;
    Ok(())
}

#[allow(dead_code)]
fn fail_unused_lazy() -> CheckResult {
    crate::fail!("unused", "unused")
}

fn run(e: &Engine) {
    e.proptest("register-histories", e.tier.pick(60_000, 3_000_000), || history([1, 10, 0, 0, 1], 40, 2), check);
    e.require_fraction("double toggle between event reads", "history", 0.2);
    e.require_fraction("history with STATus:PRESet", "history", 0.2);
    // bounded-exhaustive per bit: every (PTR, NTR, ENABle) setting of the bit x EVERY sequence of up to
    // 5 (6) operations over {set the bit, clear it, read the event register, read the condition, *STB?}
    let max_ops = if cfg!(debug_assertions) { 4u32 } else { e.tier.pick(5u32, 6) };
    e.enumerate::<History, _, _>(
        "every-filter-setting-and-toggle-sequence-per-bit",
        32,
        move |part, f| {
            let reg = if part & 1 == 0 { Reg::Oper } else { Reg::Ques };
            let bit = (part >> 1) as u16; // 0..=15
            let mask = 1u16 << bit;
            for filt in 0u8..8 {
                let v = |on: bool| if on { mask as i32 } else { 0 };
                let setup = Step { events: vec![], mav: false, tst: None, units: vec![(U::Ptr(reg, v(filt & 1 != 0)), 0), (U::Ntr(reg, v(filt & 2 != 0)), 0), (U::Enab(reg, v(filt & 4 != 0)), 0)], stored: None };
                for len in 1..=max_ops {
                    for code in 0..5u32.pow(len) {
                        let mut steps = vec![setup.clone()];
                        let mut c = code;
                        for _ in 0..len {
                            let op = c % 5;
                            c /= 5;
                            steps.push(match op {
                                0 => Step { events: vec![DevEvent::SetBits(reg, mask)], mav: false, tst: None, units: vec![(U::Cond(reg), 0)], stored: None },
                                1 => Step { events: vec![DevEvent::ClearBits(reg, mask)], mav: false, tst: None, units: vec![(U::Cond(reg), 0)], stored: None },
                                2 => Step { events: vec![], mav: false, tst: None, units: vec![(U::Ev(reg), 0)], stored: None },
                                3 => Step { events: vec![], mav: false, tst: None, units: vec![(U::Cond(reg), 0), (U::EnabQ(reg), 0)], stored: None },
                                _ => Step { events: vec![], mav: false, tst: None, units: vec![(U::StbQ, 0)], stored: None },
                            });
                        }
                        if !f(History { bounded: false, steps }) {
                            return;
                        }
                    }
                }
            }
        },
        check,
    );
    // a device whose register accessor samples the hardware: per bit every (ptr, ntr, old, new), then random masks
    e.enumerate::<Lazy, _, _>(
        "device-sampling-condition-in-accessor",
        32,
        |part, f| {
            let ques = part & 1 == 1;
            let bit = (part >> 1) as u16;
            let m = 1u16 << bit;
            for k in 0..16u16 {
                let on = |b: u16| if k & b != 0 { m } else { 0 };
                if !f(Lazy { ques, ptr: on(1), ntr: on(2), old: on(4), new: on(8) }) {
                    return;
                }
                if !f(Lazy { ques, ptr: on(1) | 0x0101, ntr: on(2) | 0x1010, old: on(4) | 0x0011, new: on(8) | 0x1100 }) {
                    return;
                }
            }
        },
        check_lazy,
    );
    e.proptest("device-sampling-condition-in-accessor-random", e.tier.pick(20_000, 500_000), || (any::<bool>(), any::<u16>(), any::<u16>(), any::<u16>(), any::<u16>()).prop_map(|(ques, ptr, ntr, old, new)| Lazy { ques, ptr, ntr, old, new }), check_lazy);
}
