//! C05 — units run in order; the first error aborts the message and is reported once.
use crate::bytes::{escape, B};
use crate::cap::{dispatch, CapVisitor, MAX_CAP};
use crate::engine::{CheckResult, Engine, Failure, Obs, PropertyMeta};
use crate::fixtree::{fixed_header, resolve, FIXTREE};
use crate::gen::msg::*;
use crate::gen::plan::{err_spec, succeeding_plans};
use crate::model::esr::is_command_error;
use crate::props::c10::expected_response;
use crate::rec::{ErrSpec, LogDev, Pull, PullAs, UnitPlan};
use crate::{ensure, fail};
use arrayvec::ArrayVec;
use proptest::prelude::*;
use scpi::error::Error;
use scpi::Context;
use serde::{Deserialize, Serialize};

pub fn meta() -> PropertyMeta {
    PropertyMeta {
        id: "C05",
        level: "fault_enumeration",
        rule: "base messages of 1..6 units on a fixed tree (commands and queries with generated responses); for EVERY unit position i and EVERY failure kind the variant in which unit i fails is executed: handler-returned error (arbitrary standard / custom / extended), missing parameter (-109), surplus parameter (-108), type / range error of a typed pull, undefined header, non-ASCII byte in the header, non-ASCII byte in the data; plus EVERY response-buffer capacity below the full response length (formatter failure at every write), plus a foreign formatter that refuses message_start / each response_unit / message_end with an arbitrary error. Oracle by construction: call log = units 0..i (the failing unit entered or not, as the kind dictates) each once in order, return value = the injected / expected error, error hook = exactly that error once; on success every handler once and no hook call. Evaluations count every executed variant. PLUS the whole-message differential from bytes (props/execdiff.rs): ALL byte strings up to length 6 (7) over a 16-symbol alphabet on the fixed tree and over the 19-symbol class alphabet on C01's tree, ALL strings of up to 7 (8) tokens, messages of 2^8 / 2^16 +- 1 units and of units with 2^8 / 2^16 +- 1 data elements, grammar-generated messages after 0..2 byte mutations, libFuzzer target c05_exec (thorough); every 'violation' verdict is run a second time with handlers that ignore the error of a parameter pull. The by-construction lexical faults are also run with such handlers. Non-trivial: a base message with at least 3 units (so that failures at positions >= 2 are exercised).",
        assumptions: &["write failures inside a response unit are injected through ArrayVec<u8, CAP> capacities 0..=192; failures of the three control calls (message_start, response_unit, message_end) through a foreign Formatter that wraps a Vec<u8>"],
        run,
    }
}

#[derive(Clone, Debug, Serialize, Deserialize, Hash)]
pub struct Case {
    pub msg: Msg,
    pub plans: Vec<UnitPlan>,
    pub inject: ErrSpec,
}

struct Outcome {
    result: Result<(), Error>,
    calls: Vec<(usize, bool)>,
    errors: Vec<Error>,
    resp_len: usize,
}

fn run_vec(bytes: &[u8], plans: &[UnitPlan]) -> Outcome {
    let mut dev = LogDev::with_plan(plans.to_vec());
    let mut ctx = Context::default();
    let mut resp: Vec<u8> = Vec::new();
    let result = FIXTREE.run(bytes, &mut dev, &mut ctx, &mut resp);
    Outcome { result, calls: dev.calls.iter().map(|c| (c.leaf, c.query)).collect(), errors: dev.errors, resp_len: resp.len() }
}

struct CapRun<'a> {
    bytes: &'a [u8],
    plans: &'a [UnitPlan],
}

impl<'a> CapVisitor for CapRun<'a> {
    type Out = Outcome;
    fn visit<const N: usize>(&mut self) -> Outcome {
        let mut dev = LogDev::with_plan(self.plans.to_vec());
        let mut ctx = Context::default();
        let mut resp: ArrayVec<u8, N> = ArrayVec::new();
        let result = FIXTREE.run(self.bytes, &mut dev, &mut ctx, &mut resp);
        Outcome { result, calls: dev.calls.iter().map(|c| (c.leaf, c.query)).collect(), errors: dev.errors, resp_len: resp.len() }
    }
}

/// A foreign formatter: a `Vec<u8>` behind a wrapper that can refuse the three
/// control calls (`message_start`, the n-th `response_unit`, `message_end`);
/// the data of a unit are written straight to the inner buffer.
struct FaultFmt {
    inner: Vec<u8>,
    fail_start: bool,
    fail_end: bool,
    fail_unit: Option<usize>,
    units: usize,
    starts: usize,
    ends: usize,
    /// bytes in the buffer when message_start was (last) called
    len_at_start: usize,
    /// a long-lived transmit buffer: message_start discards what is left of the previous response
    clear_on_start: bool,
    err: Error,
}

impl scpi::parser::response::Formatter for FaultFmt {
    fn push_str(&mut self, s: &[u8]) -> scpi::error::Result<()> {
        self.inner.push_str(s)
    }
    fn push_byte(&mut self, b: u8) -> scpi::error::Result<()> {
        self.inner.push_byte(b)
    }
    fn as_slice(&self) -> &[u8] {
        scpi::parser::response::Formatter::as_slice(&self.inner)
    }
    fn clear(&mut self) {
        scpi::parser::response::Formatter::clear(&mut self.inner)
    }
    fn len(&self) -> usize {
        scpi::parser::response::Formatter::len(&self.inner)
    }
    fn message_start(&mut self) -> scpi::error::Result<()> {
        self.starts += 1;
        if self.clear_on_start {
            self.inner.clear();
        }
        self.len_at_start = self.inner.len();
        if self.fail_start {
            return Err(self.err);
        }
        self.inner.message_start()
    }
    fn message_end(&mut self) -> scpi::error::Result<()> {
        self.ends += 1;
        if self.fail_end {
            return Err(self.err);
        }
        self.inner.message_end()
    }
    fn response_unit(&mut self) -> scpi::error::Result<scpi::parser::response::ResponseUnit> {
        let n = self.units;
        self.units += 1;
        if self.fail_unit == Some(n) {
            return Err(self.err);
        }
        self.inner.response_unit()
    }
}

fn run_fault_fmt(bytes: &[u8], plans: &[UnitPlan], fmt: FaultFmt) -> Outcome {
    run_fault_fmt_counts(bytes, plans, fmt).0
}

/// (outcome, message_start calls, response_unit calls, message_end calls, buffer length at the last message_start)
fn run_fault_fmt_counts(bytes: &[u8], plans: &[UnitPlan], mut fmt: FaultFmt) -> (Outcome, usize, usize, usize, usize) {
    let mut dev = LogDev::with_plan(plans.to_vec());
    let mut ctx = Context::default();
    let result = FIXTREE.run(bytes, &mut dev, &mut ctx, &mut fmt);
    (Outcome { result, calls: dev.calls.iter().map(|c| (c.leaf, c.query)).collect(), errors: dev.errors, resp_len: fmt.inner.len() }, fmt.starts, fmt.units, fmt.ends, fmt.len_at_start)
}

/// Run a message with a transparent foreign formatter that counts the control calls:
/// (result, buffer, message_start calls, response_unit calls, message_end calls, buffer length at the last message_start).
pub fn control_call_counts(bytes: &[u8], plans: &[UnitPlan]) -> (Result<(), Error>, Vec<u8>, usize, usize, usize, usize) {
    let mut fmt = FaultFmt { inner: Vec::new(), fail_start: false, fail_end: false, fail_unit: None, units: 0, starts: 0, ends: 0, len_at_start: 0, clear_on_start: false, err: Error::new(scpi::error::ErrorCode::OutOfMemory) };
    let mut dev = LogDev::with_plan(plans.to_vec());
    let mut ctx = Context::default();
    let result = FIXTREE.run(bytes, &mut dev, &mut ctx, &mut fmt);
    (result, fmt.inner, fmt.starts, fmt.units, fmt.ends, fmt.len_at_start)
}

/// Two messages in a row through ONE wrapping formatter whose message_start discards the previous
/// response (a long-lived transmit buffer): the buffer after each of the two runs.
pub fn two_messages_clearing_formatter(first: &[u8], first_plans: &[UnitPlan], second: &[u8], second_plans: &[UnitPlan]) -> (Result<(), Error>, Vec<u8>, Result<(), Error>, Vec<u8>) {
    let mut fmt = FaultFmt { inner: Vec::new(), fail_start: false, fail_end: false, fail_unit: None, units: 0, starts: 0, ends: 0, len_at_start: 0, clear_on_start: true, err: Error::new(scpi::error::ErrorCode::OutOfMemory) };
    let mut dev = LogDev::with_plan(first_plans.to_vec());
    let mut ctx = Context::default();
    let a = FIXTREE.run(first, &mut dev, &mut ctx, &mut fmt);
    let buf_a = fmt.inner.clone();
    let mut dev = LogDev::with_plan(second_plans.to_vec());
    let b = FIXTREE.run(second, &mut dev, &mut ctx, &mut fmt);
    (a, buf_a, b, fmt.inner)
}

fn expect_calls(case: &Case, upto: usize) -> Vec<(usize, bool)> {
    case.msg.units[..upto].iter().map(|u| (resolve(&u.header).unwrap(), u.header.query)).collect()
}

#[allow(clippy::too_many_arguments)]
fn judge(what: &str, txt: &str, o: &Outcome, want_err: Result<Error, (i16, i16)>, calls_min: &[(usize, bool)], calls_max: &[(usize, bool)]) -> CheckResult {
    // return value
    let got = match &o.result {
        Ok(()) => fail!("fault-swallowed", "{what}: {txt:?} returned Ok although a unit must fail"),
        Err(e) => *e,
    };
    match want_err {
        Ok(exact) => ensure!(got == exact, "wrong-error", "{what}: {txt:?} returned {got:?}, expected exactly {exact:?}"),
        Err((lo, hi)) => ensure!((lo..=hi).contains(&got.get_code()), "wrong-error", "{what}: {txt:?} returned {}, expected a code in {lo}..={hi}", got.get_code()),
    }
    // error hook: exactly that error, once
    ensure!(o.errors.len() == 1, "hook-count", "{what}: {txt:?}: the error hook was called {} times ({:?})", o.errors.len(), o.errors);
    ensure!(o.errors[0] == got, "hook-error", "{what}: {txt:?}: the error hook received {:?}, run returned {got:?}", o.errors[0]);
    // handlers: the expected prefix, each once, none later
    ensure!(
        o.calls.len() >= calls_min.len() && o.calls.len() <= calls_max.len() && o.calls[..] == calls_max[..o.calls.len()],
        "call-order",
        "{what}: {txt:?}: handlers that ran (leaf, query) = {:?}; expected {:?}{}",
        o.calls,
        calls_max,
        if calls_min.len() != calls_max.len() { " (the last one optional)" } else { "" }
    );
    Ok(())
}

pub fn check(case: &Case, obs: &Obs) -> CheckResult {
    let k = case.msg.units.len();
    let r = case.msg.render();
    let txt = escape(&r.bytes);
    obs.nontrivial_if(k >= 3, case);
    let mut runs = 0u64;
    // --- the intact message succeeds, every handler once, hook silent
    let base = run_vec(&r.bytes, &case.plans);
    runs += 1;
    if let Err(e) = &base.result {
        fail!("base-failed", "{txt:?}: message built to succeed fails with {}", e.get_code());
    }
    ensure!(base.calls == expect_calls(case, k), "call-order", "{txt:?}: successful message ran {:?}, expected {:?}", base.calls, expect_calls(case, k));
    ensure!(base.errors.is_empty(), "hook-on-success", "{txt:?}: the error hook was called {} times for a successful message", base.errors.len());
    // ... also when the interface says a previous response is still unread (mav) and hands over the buffer
    // that still holds it, a fresh one, or one context for two messages in a row: the hook stays silent, every
    // handler runs once (what becomes of the old bytes is not claimed)
    for (mav, prefill) in [(true, false), (false, true), (true, true)] {
        let mut dev = LogDev::with_plan(case.plans.clone());
        let mut ctx = Context::default();
        ctx.mav = mav;
        let mut resp: Vec<u8> = if prefill { b"1;\"previous response\"\n".to_vec() } else { Vec::new() };
        let first = FIXTREE.run(&r.bytes, &mut dev, &mut ctx, &mut resp);
        // (the recording device is scripted per message: a second one for the second run, same context and buffer)
        let mut dev2 = LogDev::with_plan(case.plans.clone());
        let second = FIXTREE.run(&r.bytes, &mut dev2, &mut ctx, &mut resp);
        runs += 2;
        let calls: Vec<(usize, bool)> = dev.calls.iter().chain(dev2.calls.iter()).map(|c| (c.leaf, c.query)).collect();
        dev.errors.extend(dev2.errors.iter().copied());
        let twice: Vec<(usize, bool)> = expect_calls(case, k).into_iter().chain(expect_calls(case, k)).collect();
        ensure!(first.is_ok() && second.is_ok(), "base-failed", "{txt:?} (mav = {mav}, buffer {}): run twice on one context gives {:?} / {:?}", if prefill { "holding an unread response" } else { "empty" }, first.map_err(|e| e.get_code()), second.map_err(|e| e.get_code()));
        ensure!(dev.errors.is_empty(), "hook-on-success", "{txt:?} (mav = {mav}, buffer {}): the error hook was called with {:?} although both runs succeeded", if prefill { "holding an unread response" } else { "empty" }, dev.errors.iter().map(|e| e.get_code()).collect::<Vec<_>>());
        ensure!(calls == twice, "call-order", "{txt:?} (mav = {mav}): two runs invoked {calls:?}, expected {twice:?}");
        ensure!(ctx.mav == mav, "context-written", "{txt:?}: the library changed Context::mav from {mav} to {}", ctx.mav);
    }
    let full_len = expected_response(&case.msg, &case.plans).len();
    ensure!(base.resp_len == full_len, "harness-response-length", "response length {} vs expected {}", base.resp_len, full_len);

    for i in 0..k {
        let u = &case.msg.units[i];
        let d = u.data.len();
        let upto_i = expect_calls(case, i);
        let incl_i = expect_calls(case, i + 1);
        // 1. handler-returned error
        {
            let mut plans = case.plans.clone();
            plans[i].fail = Some(case.inject);
            let o = run_vec(&r.bytes, &plans);
            runs += 1;
            obs.label("fault: handler error");
            judge(&format!("handler error at unit {i}"), &txt, &o, Ok(case.inject.build()), &incl_i, &incl_i)?;
        }
        // 1b. a response datum of a device-defined type whose formatting fails with the injected error (first, in the
        // middle or last among the unit's data): the message fails with exactly that error, like any other failure
        if u.header.query {
            for at in [0usize, case.plans[i].respond.len() / 2, case.plans[i].respond.len()] {
                let mut plans = case.plans.clone();
                let pos = at.min(plans[i].respond.len());
                plans[i].respond.insert(pos, crate::rec::RespDatum::Failing(case.inject));
                let o = run_vec(&r.bytes, &plans);
                runs += 1;
                obs.label("fault: response datum fails to format");
                judge(&format!("failing response datum {at} of unit {i}"), &txt, &o, Ok(case.inject.build()), &incl_i, &incl_i)?;
            }
        }
        // 2. missing parameter
        {
            let mut plans = case.plans.clone();
            plans[i].greedy = false;
            plans[i].pulls = (0..=d).map(|_| Pull { optional: false, as_: PullAs::Raw }).collect();
            let o = run_vec(&r.bytes, &plans);
            runs += 1;
            obs.label("fault: missing parameter");
            judge(&format!("missing parameter at unit {i}"), &txt, &o, Err((-109, -109)), &incl_i, &incl_i)?;
        }
        // 3. surplus parameter
        if d >= 1 {
            let mut plans = case.plans.clone();
            plans[i].greedy = false;
            plans[i].pulls = (0..d - 1).map(|_| Pull { optional: false, as_: PullAs::Raw }).collect();
            let o = run_vec(&r.bytes, &plans);
            runs += 1;
            obs.label("fault: surplus parameter");
            judge(&format!("surplus parameter at unit {i}"), &txt, &o, Err((-108, -108)), &incl_i, &incl_i)?;
        }
        // 4. type / range error of a typed pull
        if let Some(t) = u.data.iter().position(|x| matches!(x, Datum::Str { .. } | Datum::Expr(_) | Datum::Block { .. })) {
            let mut plans = case.plans.clone();
            plans[i].greedy = false;
            plans[i].pulls = (0..t).map(|_| Pull { optional: false, as_: PullAs::Raw }).chain(std::iter::once(Pull { optional: false, as_: PullAs::DataI32 })).collect();
            let o = run_vec(&r.bytes, &plans);
            runs += 1;
            obs.label("fault: type error");
            judge(&format!("type error at unit {i} datum {t}"), &txt, &o, Err((-104, -104)), &incl_i, &incl_i)?;
        }
        if let Some(t) = u.data.iter().position(|x| matches!(x, Datum::Dec { lit, suffix: None } if std::str::from_utf8(lit).ok().and_then(|s| s.parse::<f64>().ok()).map_or(false, |v| v.abs() > 1e12))) {
            let mut plans = case.plans.clone();
            plans[i].greedy = false;
            plans[i].pulls = (0..t).map(|_| Pull { optional: false, as_: PullAs::Raw }).chain(std::iter::once(Pull { optional: false, as_: PullAs::DataI32 })).collect();
            let o = run_vec(&r.bytes, &plans);
            runs += 1;
            obs.label("fault: range error");
            judge(&format!("range error at unit {i} datum {t}"), &txt, &o, Err((-222, -222)), &incl_i, &incl_i)?;
        }
        // 5. undefined header
        {
            let mut m = case.msg.clone();
            m.units[i].header = Header { common: false, colon: true, path: vec![B::from("ZZZ")], query: u.header.query };
            let rb = m.render();
            let o = run_vec(&rb.bytes, &case.plans);
            runs += 1;
            obs.label("fault: undefined header");
            judge(&format!("undefined header at unit {i}"), &escape(&rb.bytes), &o, Err((-113, -113)), &upto_i, &upto_i)?;
        }
        // 6. lexical fault in the header: non-ASCII byte after the first character of the first mnemonic
        {
            let mk: usize = case.msg.units[..i].iter().map(|x| x.header.path.len()).sum();
            let (s, _) = r.mnemonic_spans[mk];
            let mut b = r.bytes.clone();
            b.insert(s + 1, 0x80 | (i as u8));
            let o = run_vec(&b, &case.plans);
            runs += 1;
            obs.label("fault: lexical, header");
            judge(&format!("non-ASCII byte in the header of unit {i}"), &escape(&b), &o, Err((-199, -100)), &upto_i, &upto_i)?;
        }
        // 7. lexical fault in the data: non-ASCII byte where the last datum starts
        if d >= 1 {
            let dk: usize = case.msg.units[..i].iter().map(|x| x.data.len()).sum::<usize>() + d - 1;
            let (_, s, _) = r.data_spans[dk];
            let mut b = r.bytes.clone();
            b.insert(s, 0xFF);
            let o = run_vec(&b, &case.plans);
            runs += 1;
            obs.label("fault: lexical, data");
            // the failing unit's handler may or may not have been entered before the lexer reports the fault
            judge(&format!("non-ASCII byte in the data of unit {i}"), &escape(&b), &o, Err((-199, -100)), &upto_i, &incl_i)?;
            // the same with a handler that does not propagate the error of its parameter pull
            // ("optional parameter, else default"): a lexical fault still aborts the message
            let mut plans = case.plans.clone();
            plans[i].swallow = true;
            let o = run_vec(&b, &plans);
            runs += 1;
            obs.label("fault: lexical, data, handler ignores the pull error");
            judge(&format!("non-ASCII byte in the data of unit {i}, handler ignoring the pull error"), &escape(&b), &o, Err((-199, -100)), &upto_i, &incl_i)?;
        }
    }
    // 8. response buffer exhaustion at every capacity below the full length
    if full_len > 0 {
        // cumulative response length after each unit (0 for commands)
        let mut cum = Vec::with_capacity(k);
        let mut acc = 0usize;
        for i in 0..k {
            if case.msg.units[i].header.query {
                let mut one = Msg { lead_ws: B::default(), units: vec![case.msg.units[i].clone()], ws_units: vec![], ending: Ending::None };
                one.units[0].data.clear();
                let l = expected_response(&one, &case.plans[i..=i]).len() - 1; // without NL
                acc += l + if acc > 0 { 1 } else { 0 };
            }
            cum.push(acc);
        }
        for cap in 0..full_len.min(MAX_CAP + 1) {
            let Some(o) = dispatch(cap, &mut CapRun { bytes: &r.bytes, plans: &case.plans }) else { break };
            runs += 1;
            obs.label("fault: response buffer exhausted");
            // first unit whose output no longer fits; if all fit only the terminator fails
            let j = (0..k).find(|i| cum[*i] > cap);
            // the unit separator is written before the failing unit's handler is entered:
            // if not even the ';' fits, that handler never runs
            let entered = j.map_or(k, |j| {
                let before = if j == 0 { 0 } else { cum[j - 1] };
                if before > 0 && before + 1 > cap {
                    j
                } else {
                    j + 1
                }
            });
            let expected_calls = expect_calls(case, entered);
            judge(&format!("buffer capacity {cap} of {full_len}"), &txt, &o, Err((-225, -225)), &expected_calls, &expected_calls)?;
            ensure!(o.resp_len <= cap, "capacity-exceeded", "{txt:?}: capacity {cap} but buffer holds {}", o.resp_len);
        }
    }
    // 9. a foreign formatter refusing message_start / the j-th response_unit / message_end
    {
        let err = case.inject.build();
        let mk = || FaultFmt { inner: Vec::new(), fail_start: false, fail_end: false, fail_unit: None, units: 0, starts: 0, ends: 0, len_at_start: 0, clear_on_start: false, err };
        let o = run_fault_fmt(&r.bytes, &case.plans, FaultFmt { fail_start: true, ..mk() });
        runs += 1;
        obs.label("fault: formatter refuses message_start");
        judge("formatter refuses message_start", &txt, &o, Ok(err), &[], &[])?;
        let queries: Vec<usize> = (0..k).filter(|i| case.msg.units[*i].header.query).collect();
        for (j, ui) in queries.iter().enumerate() {
            let o = run_fault_fmt(&r.bytes, &case.plans, FaultFmt { fail_unit: Some(j), ..mk() });
            runs += 1;
            obs.label("fault: formatter refuses a response unit");
            let before = expect_calls(case, *ui);
            judge(&format!("formatter refuses response unit {j} (message unit {ui})"), &txt, &o, Ok(err), &before, &before)?;
        }
        if full_len > 0 {
            let o = run_fault_fmt(&r.bytes, &case.plans, FaultFmt { fail_end: true, ..mk() });
            runs += 1;
            obs.label("fault: formatter refuses message_end");
            let all = expect_calls(case, k);
            judge("formatter refuses message_end", &txt, &o, Ok(err), &all, &all)?;
        }
        // and the same wrapper refusing nothing behaves like the plain buffer
        let (o, starts, units, ends, len_at_start) = run_fault_fmt_counts(&r.bytes, &case.plans, mk());
        runs += 1;
        // the control-call protocol a formatter with side effects relies on: message_start once, before any
        // output; one response_unit per executed query; message_end once iff something was written
        let n_queries = case.msg.units.iter().filter(|u| u.header.query).count();
        ensure!(starts == 1 && len_at_start == 0, "formatter-protocol", "{txt:?}: message_start was called {starts} times (buffer held {len_at_start} bytes at the last call); once, before any output, is the protocol");
        ensure!(units == n_queries, "formatter-protocol", "{txt:?}: response_unit was called {units} times for {n_queries} query units");
        ensure!(ends == (full_len > 0) as usize, "formatter-protocol", "{txt:?}: message_end was called {ends} times for a response of {full_len} bytes");
        ensure!(o.result.is_ok() && o.errors.is_empty() && o.resp_len == full_len, "foreign-formatter", "{txt:?}: transparent wrapper formatter: result {:?}, {} hook calls, {} bytes (expected {full_len})", o.result, o.errors.len(), o.resp_len);
    }
    obs.executions(runs - 1);
    Ok(())
}

fn case_strategy() -> impl Strategy<Value = Case> {
    crate::fixtree::fixed_message(any::<bool>().boxed(), 6, 3, false, false).prop_flat_map(|msg| {
        let plans = succeeding_plans(&msg);
        (Just(msg), plans, err_spec()).prop_map(|(msg, plans, inject)| Case { msg, plans, inject })
    })
}

fn run(e: &Engine) {
    e.proptest("fault-at-every-position", e.tier.pick(30_000, 600_000), case_strategy, check);
    for l in ["fault: handler error", "fault: missing parameter", "fault: surplus parameter", "fault: type error", "fault: range error", "fault: undefined header", "fault: lexical, header", "fault: lexical, data", "fault: response buffer exhausted"] {
        if !e.replay_only && !e.failed() && e.label_count(l) < 300 {
            e.harness_error(format!("generator unhealthy: only {} base messages exercised {l:?}", e.label_count(l)));
        }
    }
    let _ = (Failure::new("", ""), is_command_error(0));
    // ---- whole-message differential from bytes (recogniser + resolver as the oracle)
    use crate::gen::enumstr::Partitioned;
    use crate::props::execdiff::{self, Case as D};
    if !e.replay_only {
        if let Err(m) = execdiff::models_agree() {
            e.harness_error(format!("tree model self-test: {m}"));
            return;
        }
    }
    let fix = Partitioned { alpha: FIX_ALPHABET, max_len: if cfg!(debug_assertions) { e.tier.pick(5, 5) } else { e.tier.pick(6, 7) }, prefix_len: 2 };
    let fixr = &fix;
    e.enumerate::<D, _, _>("bytes-differential-all-strings-fixtree-alphabet", fix.parts(), move |part, f| fixr.run(part, &mut |s| f(D::Fix { bytes: B(s.to_vec()) })), execdiff::check);
    let cls = Partitioned { alpha: crate::props::c01::CLASS_ALPHABET, max_len: if cfg!(debug_assertions) { e.tier.pick(4, 5) } else { e.tier.pick(6, 7) }, prefix_len: 2 };
    let clsr = &cls;
    e.enumerate::<D, _, _>("bytes-differential-all-strings-class-alphabet", cls.parts(), move |part, f| clsr.run(part, &mut |s| f(D::Class { bytes: B(s.to_vec()) })), execdiff::check);
    // all token strings: deeper than byte strings of the same length (three-unit messages, relative paths)
    let toks: Vec<Vec<u8>> = execdiff::FIX_TOKENS.iter().map(|t| t.to_vec()).collect();
    let tok_idx: Vec<u8> = (0..toks.len() as u8).collect();
    let tp = Partitioned { alpha: &tok_idx, max_len: if cfg!(debug_assertions) { e.tier.pick(5, 6) } else { e.tier.pick(7, 8) }, prefix_len: 2 };
    let (tpr, toksr) = (&tp, &toks);
    e.enumerate::<D, _, _>("bytes-differential-all-token-strings", tp.parts(), move |part, f| tpr.run(part, &mut |s| f(D::Fix { bytes: B(execdiff::concat(toksr, s)) })), execdiff::check);
    // sizes at 2^8 and 2^16: that many units in one message, that many data elements in one unit
    if !cfg!(debug_assertions) {
        let mut big: Vec<D> = Vec::new();
        for n in [255u32, 256, 257, 65_535, 65_536, 65_537, 70_000] {
            big.push(D::Repeat { head: B::default(), item: B(b"A;".to_vec()), n, tail: B(b"B:E".to_vec()) });
            big.push(D::Repeat { head: B::default(), item: B(b"*X?;".to_vec()), n, tail: B(b"A?\n".to_vec()) });
            big.push(D::Repeat { head: B(b"B:C 0".to_vec()), item: B(b",1".to_vec()), n, tail: B(b";D?".to_vec()) });
            big.push(D::Repeat { head: B(b"A 'a'".to_vec()), item: B(b" , #11x".to_vec()), n, tail: B(b";ZZ;A".to_vec()) });
            big.push(D::Repeat { head: B(b"A 1".to_vec()), item: B(b",2".to_vec()), n, tail: B(b",,3;A".to_vec()) });
        }
        e.fixed("bytes-differential-sizes-at-2^8-and-2^16", big, execdiff::check);
    }
    e.proptest("bytes-differential-mutated-messages", e.tier.pick(300_000, 8_000_000), || crate::props::c01::mutated_fixed_bytes(0).prop_map(|b| D::Fix { bytes: B(b) }), execdiff::check);
    e.require_fraction("judged: command error expected", "judged message with two or more units", 0.05);
    e.require_fraction("judged: undefined header expected", "judged message with two or more units", 0.01);
    if e.tier == crate::engine::Tier::Thorough {
        e.fuzz("fuzz-c05_exec", "c05_exec", 40_000_000, |b| if b.first().map_or(false, |x| x & 1 == 1) { D::Class { bytes: B(b[1..].to_vec()) } } else { D::Fix { bytes: B(b.get(1..).unwrap_or(&[]).to_vec()) } }, execdiff::check);
    }
}

/// One representative per role on the fixed tree: its mnemonic letters, the
/// header punctuation, a digit, the data separators, a quote, NL, a high byte.
pub const FIX_ALPHABET: &[u8] = b"ABCDEX*:;? 1,\"\n\xff";
