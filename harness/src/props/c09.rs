//! C09 — response data is well-formed and denotes exactly the value that was formatted.
use crate::conv::{lex_single, IntTy};
use crate::engine::{CheckResult, Engine, Failure, Obs, PropertyMeta};
use crate::model::mnemonic;
use crate::model::resp::*;
use crate::{ensure, fail};
use arrayvec::ArrayVec;
use proptest::prelude::*;
use scpi::error::{Error, ErrorCode};
use scpi::option::ScpiEnum;
use scpi::parser::format::{Arbitrary, Binary, Character, Expression, Hex, Octal};
use scpi::parser::response::ResponseData;
use scpi::parser::tokenizer::Token;
use serde::{Deserialize, Serialize};

pub fn meta() -> PropertyMeta {
    PropertyMeta {
        id: "C09",
        level: "exploration",
        rule: "every formattable type: all i8/u8/i16/u16 values in decimal and (non-negative) #H/#Q/#B form exhaustively; boundary-directed and random 32/64-bit and pointer-sized integers; f32 stratified over every exponent x 4096 mantissas (quick) or ALL 2^32 bit patterns (thorough); f64 subnormals, powers of two and ten, 17-digit cases and random patterns; bool; 7-bit strings with quotes/separators/NL; blocks of boundary lengths (0,1,9,10,99,100,999,1000,9999,10000,99999,100000) and random content; character and expression data; Vec and ArrayVec lists of every element kind (empty must fail); hand-written derived enums; every standard error code and custom errors with arbitrary 7-bit message / extended text. Three checks per value: independent syntax recogniser, independent decoder equals the original, library Tokenizer + TryFrom equals the original. Added: a string / error text of EVERY length up to 640 (1100) with a quote and a quote pair at EVERY offset; blocks of 10^k - 1, 10^k, 10^k + 1 bytes for every k up to 7; long error texts. Non-trivial: encoding longer than one character that is not a bare digit run, or a string containing a delimiter, float in exponent form, block whose length field crosses a power of ten, enum variant with numeric suffix.",
        assumptions: &[
            "NR2/NR3 are recognised in the forgiving-listener form (lower-case e, optional exponent sign), because the pinned test-suite fixes the text 1.0e10",
            "string tokens keep doubled quotes (zero-copy), so the library round trip un-doubles before comparing",
            "the refusal of blocks needing more than 9 length digits (>= 1 GB) is not exercised",
        ],
        run,
    }
}

#[derive(Copy, Clone, PartialEq, Debug, scpi_derive::ScpiEnum)]
pub enum FormatEnum {
    #[scpi(mnemonic = b"BINary")]
    Binary,
    #[scpi(mnemonic = b"REAL")]
    Real,
    #[scpi(mnemonic = b"ASCii1")]
    Ascii1,
    #[scpi(mnemonic = b"ASCii2")]
    Ascii2,
    #[scpi(mnemonic = b"L125")]
    L125,
    #[scpi(mnemonic = b"PACKed12")]
    Packed12,
    #[scpi(mnemonic = b"X")]
    X,
    #[scpi(mnemonic = b"ABCDEFGHIJKL")]
    Long12,
    #[scpi(mnemonic = b"UINTeger")]
    Uint(u8),
    #[scpi(mnemonic = b"P6V")]
    P6v,
    #[scpi(mnemonic = b"P25V")]
    P25v,
    #[scpi(mnemonic = b"N25Volt")]
    N25v,
    #[scpi(mnemonic = b"CH1A2")]
    Ch1a2,
}

const FORMAT_ENUM: [FormatEnum; 13] = [
    FormatEnum::Binary,
    FormatEnum::Real,
    FormatEnum::Ascii1,
    FormatEnum::Ascii2,
    FormatEnum::L125,
    FormatEnum::Packed12,
    FormatEnum::X,
    FormatEnum::Long12,
    FormatEnum::Uint(0),
    FormatEnum::P6v,
    FormatEnum::P25v,
    FormatEnum::N25v,
    FormatEnum::Ch1a2,
];

#[derive(Clone, Debug, Serialize, Deserialize, Hash)]
pub enum Elem {
    I32(i32),
    F64(u64),
    Bool(bool),
    Str(Vec<u8>),
    Block(Vec<u8>),
    Chr(String),
}

#[derive(Clone, Debug, Serialize, Deserialize, Hash)]
pub enum Case {
    Int { ty: IntTy, v: i64, vu: u64 },
    NonDec { ty: IntTy, radix: char, v: u64 },
    F32(u32),
    F64(u64),
    Bool(bool),
    Str(Vec<u8>),
    Block(Vec<u8>),
    /// a block of this many pattern bytes (size boundaries without megabyte cases)
    BigBlock(u32),
    /// a block longer than the 9-digit length field can express: the formatter must return an error
    BigBlockRefused(u32),
    StrBlock(String),
    Chr(String),
    Expr(String),
    List { array: bool, items: Vec<Elem> },
    StdError(i16),
    CustomError { code: i16, msg: Vec<u8>, ext: Option<Vec<u8>> },
    StdErrorExt { code: i16, ext: Vec<u8> },
    Enum(u8),
    /// unit quantity (formats as its stored value), AUTO, SYSTem:VERSion
    Quantity { single: bool, bits: u64, which: u8 },
    Misc(u8),
}

/// An enum whose `ScpiEnum` impl is written by hand: mnemonics in customary unit spelling, the bus
/// short forms supplied by overriding the provided `short_form()`.
#[derive(Clone, Copy, Debug, PartialEq)]
pub enum HandUnit {
    Dbm,
    Dbuv,
    Ohm,
    Volt,
}
const HAND_UNITS: [HandUnit; 4] = [HandUnit::Dbm, HandUnit::Dbuv, HandUnit::Ohm, HandUnit::Volt];

impl scpi::option::ScpiEnum for HandUnit {
    fn from_mnemonic(s: &[u8]) -> Option<Self> {
        HAND_UNITS.into_iter().find(|u| scpi::parser::mnemonic_match(u.mnemonic(), s) || s.eq_ignore_ascii_case(u.short_form()))
    }
    fn mnemonic(&self) -> &'static [u8] {
        match self {
            HandUnit::Dbm => b"dBm",
            HandUnit::Dbuv => b"dBuV",
            HandUnit::Ohm => b"Ohm",
            HandUnit::Volt => b"VOLT",
        }
    }
    fn short_form(&self) -> &'static [u8] {
        match self {
            HandUnit::Dbm => b"DBM",
            HandUnit::Dbuv => b"DBUV",
            HandUnit::Ohm => b"OHM",
            HandUnit::Volt => b"VOLT",
        }
    }
}

impl<'a> TryFrom<Token<'a>> for HandUnit {
    type Error = Error;
    fn try_from(t: Token<'a>) -> Result<Self, Error> {
        match t {
            Token::CharacterProgramData(s) => <HandUnit as scpi::option::ScpiEnum>::from_mnemonic(s).ok_or_else(|| scpi::error::ErrorCode::IllegalParameterValue.into()),
            _ => Err(scpi::error::ErrorCode::DataTypeError.into()),
        }
    }
}

pub fn fmt<T: ResponseData>(v: &T) -> Result<Vec<u8>, Error> {
    let mut buf: Vec<u8> = Vec::with_capacity(32);
    v.format_response_data(&mut buf)?;
    Ok(buf)
}

fn txt(b: &[u8]) -> String {
    let s = String::from_utf8_lossy(b);
    if s.len() > 120 {
        format!("{}...({} bytes)", &s[..120], b.len())
    } else {
        s.into_owned()
    }
}

fn int_value(ty: IntTy, v: i64, vu: u64) -> i128 {
    // signed types take v, unsigned take vu; both clamped into range by the caller
    match ty {
        IntTy::U8 | IntTy::U16 | IntTy::U32 | IntTy::U64 | IntTy::Usize => vu as i128,
        _ => v as i128,
    }
}

macro_rules! with_int {
    ($ty:expr, $val:expr, |$x:ident| $body:expr) => {
        match $ty {
            IntTy::I8 => { let $x = $val as i8; $body }
            IntTy::U8 => { let $x = $val as u8; $body }
            IntTy::I16 => { let $x = $val as i16; $body }
            IntTy::U16 => { let $x = $val as u16; $body }
            IntTy::I32 => { let $x = $val as i32; $body }
            IntTy::U32 => { let $x = $val as u32; $body }
            IntTy::I64 => { let $x = $val as i64; $body }
            IntTy::U64 => { let $x = $val as u64; $body }
            IntTy::Isize => { let $x = $val as isize; $body }
            IntTy::Usize => { let $x = $val as usize; $body }
        }
    };
}

fn check_int(ty: IntTy, val: i128, obs: &Obs, key: &Case) -> CheckResult {
    let (min, max) = ty.range();
    if val < min || val > max {
        fail!("harness-range", "value {val} outside {}", ty.name());
    }
    let out = with_int!(ty, val, |x| fmt(&x));
    let out = match out {
        Ok(o) => o,
        Err(e) => fail!("format-error", "formatting {val} as {} failed with {}", ty.name(), e.get_code()),
    };
    obs.label("integer, decimal");
    obs.nontrivial_if(out.len() >= 2, key);
    let dec = decode_nr1(&out);
    ensure!(dec.is_some(), "int-syntax", "{} {val} formatted as {:?}, not NR1", ty.name(), txt(&out));
    ensure!(dec == Some(val), "int-value", "{} {val} formatted as {:?}", ty.name(), txt(&out));
    match lex_single(&out) {
        Some(t @ Token::DecimalNumericProgramData(_)) => {
            let back = ty.convert(t);
            ensure!(back == Ok(val), "int-roundtrip", "{} {val} -> {:?} -> library parses {back:?}", ty.name(), txt(&out));
        }
        other => fail!("int-roundtrip", "{} {val} -> {:?} lexes as {other:?}", ty.name(), txt(&out)),
    }
    Ok(())
}

fn check_nondec(ty: IntTy, radix: char, v: u64, obs: &Obs, key: &Case) -> CheckResult {
    let (_, max) = ty.range();
    let val = (v as i128).min(max);
    let out = match radix {
        'H' => with_int!(ty, val, |x| fmt(&Hex(x))),
        'Q' => with_int!(ty, val, |x| fmt(&Octal(x))),
        _ => with_int!(ty, val, |x| fmt(&Binary(x))),
    };
    let out = match out {
        Ok(o) => o,
        Err(e) => fail!("format-error", "formatting {val} as #{radix} {} failed with {}", ty.name(), e.get_code()),
    };
    obs.label("integer, non-decimal");
    obs.nontrivial_if(out.len() >= 4, key);
    let dec = decode_nondecimal(&out);
    ensure!(dec.is_some(), "nondec-syntax", "{} {val} in #{radix} formatted as {:?}", ty.name(), txt(&out));
    ensure!(dec == Some((radix as u8, val as u128)), "nondec-value", "{} {val} in #{radix} formatted as {:?}", ty.name(), txt(&out));
    match lex_single(&out) {
        Some(t @ Token::NonDecimalNumericProgramData(_)) => {
            let back = ty.convert(t);
            ensure!(back == Ok(val), "nondec-roundtrip", "{} {val} -> {:?} -> library parses {back:?}", ty.name(), txt(&out));
        }
        other => fail!("nondec-roundtrip", "{} {val} -> {:?} lexes as {other:?}", ty.name(), txt(&out)),
    }
    Ok(())
}

pub fn check_f32(bits: u32, obs: &Obs) -> CheckResult {
    let x = f32::from_bits(bits);
    let out = match fmt(&x) {
        Ok(o) => o,
        Err(e) => fail!("format-error", "formatting f32 {bits:#010x} failed with {}", e.get_code()),
    };
    if x.is_nan() {
        ensure!(out == b"9.91E+37", "float-sentinel", "f32 NaN formatted as {:?}", txt(&out));
        return Ok(());
    }
    if x.is_infinite() {
        let want: &[u8] = if x > 0.0 { b"9.9E+37" } else { b"-9.9E+37" };
        ensure!(out == want, "float-sentinel", "f32 {x} formatted as {:?}", txt(&out));
        return Ok(());
    }
    let expo = out.iter().any(|c| *c == b'e' || *c == b'E');
    obs.label_if(expo, "float in exponent form");
    obs.nontrivial_if(expo || out.len() > 3, &bits);
    ensure!(is_float_text(&out), "float-syntax", "f32 {x:e} ({bits:#010x}) formatted as {:?}", txt(&out));
    let back: f32 = std::str::from_utf8(&out).unwrap().parse().unwrap();
    if back.to_bits() != bits {
        let sig = if back == x { "float-zero-sign" } else { "float-value" };
        fail!(sig, "f32 {x:e} ({bits:#010x}) formatted as {:?}, which denotes {back:e}", txt(&out));
    }
    match lex_single(&out) {
        Some(t @ Token::DecimalNumericProgramData(_)) => {
            let lib = f32::try_from(t).map(|v| v.to_bits());
            ensure!(lib == Ok(bits), "float-roundtrip", "f32 {x:e} -> {:?} -> library parses {lib:?}", txt(&out));
        }
        other => fail!("float-roundtrip", "f32 {x:e} -> {:?} lexes as {other:?}", txt(&out)),
    }
    Ok(())
}

fn check_f64(bits: u64, obs: &Obs) -> CheckResult {
    let x = f64::from_bits(bits);
    let out = match fmt(&x) {
        Ok(o) => o,
        Err(e) => fail!("format-error", "formatting f64 {bits:#018x} failed with {}", e.get_code()),
    };
    if x.is_nan() {
        ensure!(out == b"9.91E+37", "float-sentinel", "f64 NaN formatted as {:?}", txt(&out));
        return Ok(());
    }
    if x.is_infinite() {
        let want: &[u8] = if x > 0.0 { b"9.9E+37" } else { b"-9.9E+37" };
        ensure!(out == want, "float-sentinel", "f64 {x} formatted as {:?}", txt(&out));
        return Ok(());
    }
    let expo = out.iter().any(|c| *c == b'e' || *c == b'E');
    obs.label_if(expo, "float in exponent form");
    obs.nontrivial_if(expo || out.len() > 3, &bits);
    ensure!(is_float_text(&out), "float-syntax", "f64 {x:e} ({bits:#018x}) formatted as {:?}", txt(&out));
    let back: f64 = std::str::from_utf8(&out).unwrap().parse().unwrap();
    if back.to_bits() != bits {
        let sig = if back == x { "float-zero-sign" } else { "float-value" };
        fail!(sig, "f64 {x:e} ({bits:#018x}) formatted as {:?}, which denotes {back:e}", txt(&out));
    }
    match lex_single(&out) {
        Some(t @ Token::DecimalNumericProgramData(_)) => {
            let lib = f64::try_from(t).map(|v| v.to_bits());
            ensure!(lib == Ok(bits), "float-roundtrip", "f64 {x:e} -> {:?} -> library parses {lib:?}", txt(&out));
        }
        other => fail!("float-roundtrip", "f64 {x:e} -> {:?} lexes as {other:?}", txt(&out)),
    }
    Ok(())
}

fn check_str(s: &[u8], obs: &Obs, key: &Case) -> CheckResult {
    obs.label("string");
    let out = fmt(&s);
    if !s.is_ascii() {
        ensure!(out.is_err(), "string-non-ascii", "non-ASCII string formatted as {:?}", out.map(|o| txt(&o)));
        return Ok(());
    }
    let out = match out {
        Ok(o) => o,
        Err(e) => fail!("format-error", "formatting string {:?} failed with {}", txt(s), e.get_code()),
    };
    let delim = s.iter().any(|c| matches!(c, b'"' | b'\'' | b',' | b';' | b'\n'));
    obs.label_if(s.contains(&b'"'), "string containing a double quote");
    obs.nontrivial_if(delim, key);
    let dec = decode_string(&out);
    ensure!(dec.is_some(), "string-syntax", "string {:?} formatted as {:?}", txt(s), txt(&out));
    ensure!(dec.as_deref() == Some(s), "string-value", "string {:?} formatted as {:?}", txt(s), txt(&out));
    match lex_single(&out) {
        Some(t @ Token::StringProgramData(_)) => {
            let lib: Result<&[u8], _> = t.try_into();
            let lib = lib.map(|p| undouble(p, b'"'));
            ensure!(lib.as_deref() == Ok(s), "string-roundtrip", "string {:?} -> {:?} -> library parses {lib:?}", txt(s), txt(&out));
        }
        other => fail!("string-roundtrip", "string {:?} -> {:?} lexes as {other:?}", txt(s), txt(&out)),
    }
    Ok(())
}

fn check_block(payload: &[u8], as_str: bool, obs: &Obs, key: &Case) -> CheckResult {
    obs.label("block");
    let out = if as_str {
        match std::str::from_utf8(payload) {
            Ok(s) => fmt(&s),
            Err(_) => fail!("harness-utf8", "generator produced a non UTF-8 str"),
        }
    } else {
        fmt(&Arbitrary(payload))
    };
    let out = match out {
        Ok(o) => o,
        Err(e) => fail!("format-error", "formatting a {}-byte block failed with {}", payload.len(), e.get_code()),
    };
    let l = payload.len();
    let crossing = matches!(l, 9 | 10 | 99 | 100 | 999 | 1000 | 9999 | 10000 | 99999 | 100000 | 999_999 | 1_000_000 | 9_999_999 | 10_000_000 | 99_999_999 | 100_000_000 | 999_999_999);
    obs.label_if(crossing, "block length at a power-of-ten edge");
    obs.nontrivial_if(crossing || l >= 2, key);
    let dec = decode_block(&out);
    ensure!(dec.is_some(), "block-syntax", "{l}-byte block formatted with header {:?}", txt(&out[..out.len().min(12)]));
    ensure!(dec.as_deref() == Some(payload), "block-value", "{l}-byte block does not decode to its payload; header {:?}", txt(&out[..out.len().min(12)]));
    match lex_single(&out) {
        Some(t @ Token::ArbitraryBlockData(_)) => {
            if as_str {
                let lib: Result<&str, _> = t.try_into();
                ensure!(lib.map(|s| s.as_bytes()) == Ok(payload), "block-roundtrip", "str block of {l} bytes does not parse back");
            } else {
                let lib: Result<Arbitrary, _> = t.try_into();
                ensure!(lib.map(|a| a.0) == Ok(payload), "block-roundtrip", "block of {l} bytes does not parse back");
            }
        }
        other => fail!("block-roundtrip", "{l}-byte block lexes as {:?}", other.map(|t| format!("{t:?}").chars().take(80).collect::<String>())),
    }
    Ok(())
}

fn leak(v: &[u8]) -> &'static [u8] {
    Box::leak(v.to_vec().into_boxed_slice())
}

fn check_error(err: Error, obs: &Obs, key: &Case) -> CheckResult {
    obs.label("error queue item");
    let out = match fmt(&err) {
        Ok(o) => o,
        Err(e) => fail!("format-error", "formatting {err:?} failed with {}", e.get_code()),
    };
    let msg = err.get_message();
    let has_quote = msg.contains(&b'"') || err.get_extended().map_or(false, |e| e.contains(&b'"'));
    obs.label_if(has_quote, "error text containing a double quote");
    obs.label_if(err.get_extended().is_some(), "error with extended text");
    obs.nontrivial(key);
    // split at the first comma: NR1 , string
    let Some(comma) = out.iter().position(|c| *c == b',') else {
        fail!("error-syntax", "{err:?} formatted as {:?}: no comma", txt(&out));
    };
    let code = decode_nr1(&out[..comma]);
    ensure!(code == Some(err.get_code() as i128), "error-code", "{err:?} formatted as {:?}", txt(&out));
    let text = decode_string(&out[comma + 1..]);
    let mut want = msg.to_vec();
    if let Some(ext) = err.get_extended() {
        want.push(b';');
        want.extend_from_slice(ext);
    }
    ensure!(text.is_some(), "error-syntax", "{err:?} formatted as {:?}: the description is not a well-formed string", txt(&out));
    ensure!(text == Some(want), "error-text", "{err:?} formatted as {:?}", txt(&out));
    Ok(())
}

fn check_list(array: bool, items: &[Elem], obs: &Obs, key: &Case) -> CheckResult {
    obs.label("list");
    obs.nontrivial_if(items.len() >= 2, key);
    // all items of a list share the kind of the first one
    macro_rules! go {
        ($conv:expr, $t:ty) => {{
            let vals: Vec<$t> = items.iter().filter_map($conv).collect();
            let joined: Vec<u8> = {
                let mut j = Vec::new();
                for (i, v) in vals.iter().enumerate() {
                    if i > 0 {
                        j.push(b',');
                    }
                    j.extend_from_slice(&fmt(v).map_err(|e| Failure::new("format-error", format!("element failed {}", e.get_code())))?);
                }
                j
            };
            let out = if array {
                let mut a: ArrayVec<$t, 24> = ArrayVec::new();
                for v in vals.iter().take(24) {
                    a.push(v.clone());
                }
                fmt(&a)
            } else {
                fmt(&vals)
            };
            (vals.len(), joined, out)
        }};
    }
    let (n, joined, out) = match items.first() {
        None | Some(Elem::I32(_)) => go!(|e| if let Elem::I32(v) = e { Some(*v) } else { None }, i32),
        Some(Elem::F64(_)) => go!(|e| if let Elem::F64(v) = e { Some(f64::from_bits(*v)) } else { None }, f64),
        Some(Elem::Bool(_)) => go!(|e| if let Elem::Bool(v) = e { Some(*v) } else { None }, bool),
        Some(Elem::Str(_)) => go!(|e| if let Elem::Str(v) = e { Some(&v[..]) } else { None }, &[u8]),
        Some(Elem::Block(_)) => go!(|e| if let Elem::Block(v) = e { Some(Arbitrary(&v[..])) } else { None }, Arbitrary),
        Some(Elem::Chr(_)) => go!(|e| if let Elem::Chr(v) = e { Some(Character(v.as_bytes())) } else { None }, Character),
    };
    if n == 0 {
        ensure!(out.is_err(), "list-empty", "an empty list formatted as {:?}", out.map(|o| txt(&o)));
        return Ok(());
    }
    match out {
        Ok(o) => ensure!(o == joined, "list-join", "list of {n} formatted as {:?}, elements joined by ',' give {:?}", txt(&o), txt(&joined)),
        Err(e) => fail!("format-error", "formatting a list of {n} failed with {}", e.get_code()),
    }
    // the same list where it is not the first thing in the buffer: second datum of a unit,
    // after a response header, in the second unit of a message, and nested
    if let Some(Elem::I32(_)) = items.first() {
        use scpi::parser::response::Formatter;
        let vals: Vec<i32> = items.iter().filter_map(|e| if let Elem::I32(v) = e { Some(*v) } else { None }).collect();
        let j = String::from_utf8(joined.clone()).unwrap();
        let mut buf: Vec<u8> = Vec::new();
        let r = buf.response_unit().and_then(|mut u| u.data(7u8).data(vals.clone()).finish());
        ensure!(r.is_ok() && buf == format!("7,{j}").as_bytes(), "list-in-context", "list as second datum of a unit: {:?}, expected {:?}", txt(&buf), format!("7,{j}"));
        let mut buf: Vec<u8> = Vec::new();
        let r = buf.response_unit().and_then(|mut u| u.header(b"TRAC").data(vals.clone()).finish());
        ensure!(r.is_ok() && buf == format!("TRAC {j}").as_bytes(), "list-in-context", "list after a response header: {:?}, expected {:?}", txt(&buf), format!("TRAC {j}"));
        let mut buf: Vec<u8> = Vec::new();
        let r = buf.response_unit().and_then(|mut u| u.data(true).finish()).and_then(|_| buf.response_unit().and_then(|mut u| u.data(vals.clone()).finish()));
        ensure!(r.is_ok() && buf == format!("1;{j}").as_bytes(), "list-in-context", "list in the second unit: {:?}, expected {:?}", txt(&buf), format!("1;{j}"));
        let nested = vec![vals.clone(), vals.clone()];
        let out = fmt(&nested);
        ensure!(out.as_deref() == Ok(format!("{j},{j}").as_bytes()), "list-in-context", "nested list: {:?}, expected {:?}", out.map(|o| txt(&o)), format!("{j},{j}"));
        obs.label("list formatted in context");
    }
    Ok(())
}

fn check_enum(i: u8, obs: &Obs, key: &Case) -> CheckResult {
    let v = FORMAT_ENUM[i as usize % FORMAT_ENUM.len()];
    obs.label("enum variant");
    let def = v.mnemonic();
    let (_, suffix) = mnemonic::split_suffix(def);
    obs.label_if(!suffix.is_empty(), "enum variant with numeric suffix");
    obs.nontrivial(key);
    let out = match fmt(&v) {
        Ok(o) => o,
        Err(e) => fail!("format-error", "formatting {v:?} failed with {}", e.get_code()),
    };
    ensure!(is_character_data(&out), "enum-syntax", "{v:?} formatted as {:?}", txt(&out));
    // independent decode: the text must match this variant's mnemonic and no other
    for w in FORMAT_ENUM {
        let m = mnemonic::matches(w.mnemonic(), &out) == mnemonic::Verdict::Match;
        ensure!(m == (w == v), "enum-selects", "{v:?} formatted as {:?}, which {} {w:?}", txt(&out), if m { "selects" } else { "does not select" });
    }
    match lex_single(&out) {
        Some(t @ Token::CharacterProgramData(_)) => {
            let back = FormatEnum::try_from(t);
            ensure!(back == Ok(v), "enum-roundtrip", "{v:?} -> {:?} -> library parses {back:?}", txt(&out));
        }
        other => fail!("enum-roundtrip", "{v:?} -> {:?} lexes as {other:?}", txt(&out)),
    }
    Ok(())
}

pub fn check(case: &Case, obs: &Obs) -> CheckResult {
    match case {
        Case::Int { ty, v, vu } => {
            let (min, max) = ty.range();
            check_int(*ty, int_value(*ty, *v, *vu).clamp(min, max), obs, case)
        }
        Case::NonDec { ty, radix, v } => check_nondec(*ty, *radix, *v, obs, case),
        Case::F32(b) => {
            obs.label("f32");
            check_f32(*b, obs)
        }
        Case::F64(b) => {
            obs.label("f64");
            check_f64(*b, obs)
        }
        Case::Bool(b) => {
            obs.label("bool");
            let out = fmt(b);
            let want: &[u8] = if *b { b"1" } else { b"0" };
            ensure!(out.as_deref() == Ok(want), "bool-text", "bool {b} formatted as {out:?}");
            let back = lex_single(want).map(bool::try_from);
            ensure!(back == Some(Ok(*b)), "bool-roundtrip", "bool {b} parses back as {back:?}");
            Ok(())
        }
        Case::Str(s) => check_str(s, obs, case),
        Case::Block(p) => check_block(p, false, obs, case),
        Case::BigBlock(n) => check_block(crate::rec::big_block(*n), false, obs, case),
        Case::BigBlockRefused(n) => {
            obs.label("block beyond the 9-digit length field");
            obs.nontrivial(case);
            match fmt(&Arbitrary(crate::rec::zero_block(*n))) {
                Err(_) => Ok(()),
                Ok(out) => fail!("block-syntax", "a block of {n} bytes was formatted with header {:?}; its length cannot be expressed in the 9-digit field", txt(&out[..out.len().min(14)])),
            }
        }
        Case::StrBlock(s) => check_block(s.as_bytes(), true, obs, case),
        Case::Chr(s) => {
            obs.label("character data");
            obs.nontrivial_if(s.len() >= 2, case);
            let out = fmt(&Character(s.as_bytes()));
            ensure!(out.as_deref() == Ok(s.as_bytes()), "chr-text", "Character({s}) formatted as {out:?}");
            ensure!(is_character_data(s.as_bytes()), "harness-chr", "generator produced ill-formed character data {s:?}");
            match lex_single(s.as_bytes()) {
                Some(t @ Token::CharacterProgramData(_)) => {
                    let back: Result<Character, _> = t.try_into();
                    ensure!(back.map(|c| c.0) == Ok(s.as_bytes()), "chr-roundtrip", "Character({s}) does not parse back");
                }
                other => fail!("chr-roundtrip", "Character({s}) lexes as {other:?}"),
            }
            Ok(())
        }
        Case::Expr(s) => {
            obs.label("expression data");
            obs.nontrivial_if(s.len() >= 2, case);
            let out = match fmt(&Expression(s.as_bytes())) {
                Ok(o) => o,
                Err(e) => fail!("format-error", "Expression({s}) failed with {}", e.get_code()),
            };
            ensure!(decode_expression(&out) == Some(s.as_bytes()), "expr-text", "Expression({s}) formatted as {:?}", txt(&out));
            match lex_single(&out) {
                Some(t @ Token::ExpressionProgramData(_)) => {
                    let back: Result<Expression, _> = t.try_into();
                    match back {
                        Ok(e) => ensure!(e.0 == s.as_bytes(), "expr-roundtrip", "Expression({s}) parses back as {:?}", txt(e.0)),
                        Err(e) => fail!("expr-roundtrip", "Expression({s}) -> {:?} -> library conversion fails with {}", txt(&out), e.get_code()),
                    }
                }
                other => fail!("expr-roundtrip", "Expression({s}) -> {:?} lexes as {other:?}", txt(&out)),
            }
            Ok(())
        }
        Case::List { array, items } => check_list(*array, items, obs, case),
        Case::StdError(code) => match ErrorCode::get_error(*code) {
            Some(e) => check_error(Error::new(e), obs, case),
            None => Ok(()),
        },
        Case::StdErrorExt { code, ext } => match ErrorCode::get_error(*code) {
            Some(e) => check_error(Error::new(e).extended(leak(ext)), obs, case),
            None => Ok(()),
        },
        Case::CustomError { code, msg, ext } => {
            let mut e = Error::custom(*code, leak(msg));
            if let Some(x) = ext {
                e = e.extended(leak(x));
            }
            check_error(e, obs, case)
        }
        Case::Enum(i) => check_enum(*i, obs, case),
        Case::Quantity { single, bits, which } => {
            use scpi::units::uom::si::{f32 as q32, f64 as q64};
            obs.label("unit quantity");
            obs.nontrivial(case);
            if *single {
                let x = f32::from_bits(*bits as u32);
                let own = fmt(&x);
                let got = match which % 4 {
                    0 => fmt(&q32::ElectricPotential::new::<scpi::units::uom::si::electric_potential::volt>(x)),
                    1 => fmt(&q32::Time::new::<scpi::units::uom::si::time::second>(x)),
                    2 => fmt(&q32::Frequency::new::<scpi::units::uom::si::frequency::hertz>(x)),
                    _ => fmt(&q32::Ratio::new::<scpi::units::uom::si::ratio::ratio>(x)),
                };
                ensure!(got == own, "quantity-text", "quantity of {x:e} formatted as {got:?}, its value alone as {own:?}");
                check_f32(*bits as u32, obs)
            } else {
                let x = f64::from_bits(*bits);
                let own = fmt(&x);
                let got = match which % 3 {
                    0 => fmt(&q64::ElectricPotential::new::<scpi::units::uom::si::electric_potential::volt>(x)),
                    1 => fmt(&q64::Time::new::<scpi::units::uom::si::time::second>(x)),
                    _ => fmt(&q64::Energy::new::<scpi::units::uom::si::energy::joule>(x)),
                };
                ensure!(got == own, "quantity-text", "quantity of {x:e} formatted as {got:?}, its value alone as {own:?}");
                check_f64(*bits, obs)
            }
        }
        Case::Misc(k) => {
            use scpi_contrib::scpi1999::util::Auto;
            obs.label("AUTO / version");
            use scpi::option::ScpiEnum as _;
            let (got, want): (Result<Vec<u8>, Error>, &[u8]) = match k % 4 {
                0 => (fmt(&Auto::Once), b"ONCE"),
                1 => (fmt(&Auto::Bool(true)), b"1"),
                2 => (fmt(&Auto::Bool(false)), b"0"),
                _ => (fmt(&&scpi_contrib::scpi1999::system::SystVersionCommand::new(1999, 0)), b"1999.0"),
            };
            if k % 8 >= 4 {
                // a hand-written ScpiEnum that overrides the provided short_form(): the response is that text
                let v = HAND_UNITS[(k % 4) as usize];
                let got = fmt(&v);
                let want = v.short_form();
                obs.label("hand-written enum with its own short_form()");
                ensure!(got.as_deref() == Ok(want), "enum-short-form-override", "{v:?} formatted as {got:?}, its short_form() is {:?}", String::from_utf8_lossy(want));
                let back = lex_single(want).and_then(|t| HandUnit::try_from(t).ok());
                ensure!(back == Some(v), "enum-roundtrip", "{v:?} -> {:?} -> library parses {back:?}", String::from_utf8_lossy(want));
                return Ok(());
            }
            ensure!(got.as_deref() == Ok(want), "misc-text", "formatted as {got:?}, expected {:?}", String::from_utf8_lossy(want));
            if k % 4 < 3 {
                // AUTO round trip
                let back = lex_single(want).map(Auto::try_from);
                let ok = match (k % 4, back) {
                    (0, Some(Ok(Auto::Once))) => true,
                    (1, Some(Ok(Auto::Bool(true)))) => true,
                    (2, Some(Ok(Auto::Bool(false)))) => true,
                    _ => false,
                };
                ensure!(ok, "misc-roundtrip", "AUTO value {k} does not parse back from {:?}", String::from_utf8_lossy(want));
            }
            Ok(())
        }
    }
}

// ---------------------------------------------------------------- generators

fn wide_int() -> impl Strategy<Value = (i64, u64)> {
    prop_oneof![
        2 => (any::<i64>(), any::<u64>()),
        2 => (0u32..64, -2i64..=2, any::<bool>()).prop_map(|(b, k, neg)| {
            let p = (1i128 << b) + k as i128;
            let s = if neg { -p } else { p };
            (s.clamp(i64::MIN as i128, i64::MAX as i128) as i64, p.clamp(0, u64::MAX as i128) as u64)
        }),
        2 => (0u32..20, -2i64..=2, any::<bool>()).prop_map(|(b, k, neg)| {
            let p = 10i128.pow(b) + k as i128;
            let s = if neg { -p } else { p };
            (s as i64, p.max(0) as u64)
        }),
        1 => Just((i64::MIN, u64::MAX)),
        1 => Just((i64::MAX, u64::MAX - 1)),
        1 => Just((i32::MIN as i64, u32::MAX as u64)),
        1 => Just((i32::MAX as i64, u32::MAX as u64 + 1)),
    ]
}

fn f64_bits() -> impl Strategy<Value = u64> {
    prop_oneof![
        4 => any::<u64>(),
        1 => (0u64..2048, any::<bool>()).prop_map(|(e, s)| (e << 52) | ((s as u64) << 63)),
        1 => (0u64..2048, any::<bool>()).prop_map(|(e, s)| (e << 52) | 0x000F_FFFF_FFFF_FFFF | ((s as u64) << 63)),
        1 => (0u64..64, any::<bool>()).prop_map(|(m, s)| m | ((s as u64) << 63)), // tiny subnormals, +-0
        1 => (-330i32..310).prop_map(|e| format!("1e{e}").parse::<f64>().unwrap().to_bits()),
        1 => (1u64..99_999_999_999_999_999, -300i32..290).prop_map(|(m, e)| format!("{m}e{e}").parse::<f64>().unwrap().to_bits()),
        1 => (-1000i64..1000).prop_map(|v| (v as f64 / 8.0).to_bits()),
    ]
}

fn ascii_string() -> impl Strategy<Value = Vec<u8>> {
    prop_oneof![
        3 => proptest::collection::vec(0u8..128, 0..40),
        3 => "[a-z\"',;:() #\\n]{0,24}".prop_map(String::into_bytes),
        1 => Just(b"\"".to_vec()),
        1 => Just(b"\"\"".to_vec()),
        2 => (56usize..300, proptest::collection::vec(0usize..300, 0..5)).prop_map(|(n, qs)| { let mut v = vec![b'a'; n]; for q in qs { if q < n { v[q] = b'"'; } } v }),
        // every offset 0..=600 holds a quote in some case: a string of n characters ending in a quote, and one with a quote pair
        1 => (1usize..=600, any::<bool>()).prop_map(|(n, pair)| { let mut v = vec![b'b'; n]; v[n - 1] = b'"'; if pair && n >= 2 { v[n - 2] = b'"'; } v }),
        1 => proptest::collection::vec(any::<u8>(), 1..10),
    ]
}

fn block_payload() -> impl Strategy<Value = Vec<u8>> {
    prop_oneof![
        4 => proptest::collection::vec(any::<u8>(), 0..64),
        2 => (prop_oneof![Just(0usize), Just(1), Just(9), Just(10), Just(11), Just(99), Just(100), Just(101), Just(999), Just(1000)], any::<u8>(), any::<u8>())
            .prop_map(|(n, a, b)| (0..n).map(|i| if i % 7 == 0 { a } else { b.wrapping_add(i as u8) }).collect()),
        1 => (prop_oneof![Just(9999usize), Just(10000), Just(99999), Just(100000)], any::<u8>())
            .prop_map(|(n, a)| (0..n).map(|i| a.wrapping_mul(i as u8 | 1)).collect()),
    ]
}

fn elem_list() -> impl Strategy<Value = Vec<Elem>> {
    prop_oneof![
        proptest::collection::vec(any::<i32>().prop_map(Elem::I32), 0..20),
        proptest::collection::vec(f64_bits().prop_filter("finite", |b| f64::from_bits(*b).is_finite()).prop_map(Elem::F64), 0..20),
        proptest::collection::vec(any::<bool>().prop_map(Elem::Bool), 0..20),
        proptest::collection::vec("[a-z\",;]{0,6}".prop_map(|s| Elem::Str(s.into_bytes())), 0..20),
        proptest::collection::vec(proptest::collection::vec(any::<u8>(), 0..12).prop_map(Elem::Block), 0..20),
        proptest::collection::vec("[A-Za-z][A-Za-z0-9_]{0,11}".prop_map(Elem::Chr), 0..20),
    ]
}

fn text7() -> impl Strategy<Value = Vec<u8>> {
    prop_oneof![
        3 => "[ -~]{1,24}".prop_map(String::into_bytes),
        2 => "[a-z\" ;,]{1,12}".prop_map(String::into_bytes),
        // long texts with quotes at arbitrary offsets (escaping works in pieces in some implementations)
        1 => (56usize..300, proptest::collection::vec(0usize..300, 0..5), any::<u8>()).prop_map(|(n, qs, a)| { let mut v: Vec<u8> = (0..n).map(|i| b'a' + ((i + a as usize) % 26) as u8).collect(); for q in qs { if q < n { v[q] = b'"'; } } v }),
    ]
}

fn case_strategy() -> impl Strategy<Value = Case> {
    let ty = || (0usize..10).prop_map(|i| IntTy::ALL[i]);
    prop_oneof![
        12 => (ty(), wide_int()).prop_map(|(ty, (v, vu))| Case::Int { ty, v, vu }),
        10 => (ty(), prop_oneof![Just('H'), Just('Q'), Just('B')], wide_int()).prop_map(|(ty, radix, (_, v))| Case::NonDec { ty, radix, v }),
        10 => any::<u32>().prop_map(Case::F32),
        16 => f64_bits().prop_map(Case::F64),
        1 => any::<bool>().prop_map(Case::Bool),
        12 => ascii_string().prop_map(Case::Str),
        8 => block_payload().prop_map(Case::Block),
        3 => "\\PC{0,40}".prop_map(Case::StrBlock),
        5 => "[A-Za-z][A-Za-z0-9_]{0,11}".prop_map(Case::Chr),
        5 => "[ !#-&*-:<-~]{0,30}".prop_map(Case::Expr),
        8 => (any::<bool>(), elem_list()).prop_map(|(array, items)| Case::List { array, items }),
        6 => (any::<i16>(), text7(), proptest::option::of(text7())).prop_map(|(code, msg, ext)| Case::CustomError { code, msg, ext }),
        2 => ((-899i16..=0), text7()).prop_map(|(code, ext)| Case::StdErrorExt { code, ext }),
        2 => (0u8..13).prop_map(Case::Enum),
        3 => (any::<bool>(), f64_bits(), any::<u8>()).prop_map(|(single, bits, which)| Case::Quantity { single, bits: if single { (f64::from_bits(bits) as f32).to_bits() as u64 } else { bits }, which }),
        1 => (0u8..8).prop_map(Case::Misc),
    ]
}

fn run(e: &Engine) {
    // exhaustive: all 8/16-bit integers, decimal and non-decimal
    let small = [IntTy::I8, IntTy::U8, IntTy::I16, IntTy::U16];
    e.enumerate::<Case, _, _>(
        "all-8-16-bit-integers",
        small.len() as u64 * 4,
        |part, f| {
            let ty = small[(part / 4) as usize];
            let form = part % 4;
            let (min, max) = ty.range();
            for v in min..=max {
                let c = match form {
                    0 => Case::Int { ty, v: v as i64, vu: v.max(0) as u64 },
                    _ if v < 0 => continue,
                    1 => Case::NonDec { ty, radix: 'H', v: v as u64 },
                    2 => Case::NonDec { ty, radix: 'Q', v: v as u64 },
                    _ => Case::NonDec { ty, radix: 'B', v: v as u64 },
                };
                if !f(c) {
                    return;
                }
            }
        },
        check,
    );
    // every standard error code
    e.enumerate::<Case, _, _>(
        "all-error-codes",
        16,
        |part, f| {
            let lo = -32768 + (part as i32) * 4096;
            for c in lo..lo + 4096 {
                if ErrorCode::get_error(c as i16).is_some() && !f(Case::StdError(c as i16)) {
                    return;
                }
            }
        },
        check,
    );
    e.enumerate::<Case, _, _>("all-enum-variants", 1, |_, f| {
        for i in 0..FORMAT_ENUM.len() as u8 {
            if !f(Case::Enum(i)) {
                return;
            }
        }
    }, check);
    // f32: stratified (quick) or all 2^32 patterns (thorough)
    match e.tier {
        crate::engine::Tier::Quick => {
            e.enumerate::<Case, _, _>(
                "f32-stratified",
                512,
                |part, f| {
                    // part = sign(1) | exponent(8): all boundary mantissas + 4096 spread mantissas
                    let hi = (part as u32) << 23;
                    for m in (0u32..64).chain((0x7FFFC0..0x800000).into_iter()) {
                        if !f(Case::F32(hi | m)) {
                            return;
                        }
                    }
                    for k in 0u32..4096 {
                        let m = (k.wrapping_mul(2654435761) >> 9) & 0x7FFFFF;
                        if !f(Case::F32(hi | m)) {
                            return;
                        }
                    }
                },
                check,
            );
        }
        crate::engine::Tier::Thorough => {
            e.enumerate::<u32, _, _>(
                "f32-all-bit-patterns",
                4096,
                |part, f| {
                    let lo = (part as u32) << 20;
                    for b in lo..=lo | 0xFFFFF {
                        if !f(b) {
                            return;
                        }
                    }
                },
                |b: &u32, obs: &Obs| check_f32(*b, obs),
            );
        }
    }
    // bounded-exhaustive: a string / error text of EVERY length up to 640 (320) with a quote (and a
    // quote pair) at EVERY offset: escaping that works through a window or in pieces fails at one offset
    let max_n = if cfg!(debug_assertions) { 200u64 } else { e.tier.pick(640u64, 1100) };
    e.enumerate::<Case, _, _>(
        "every-length-and-quote-offset",
        max_n,
        |part, f| {
            let n = part as usize + 1;
            for p in 0..n {
                for pair in [false, true] {
                    let mut v = vec![b'c'; n];
                    v[p] = b'"';
                    if pair {
                        if p + 1 >= n {
                            continue;
                        }
                        v[p + 1] = b'"';
                    }
                    if !f(Case::Str(v.clone())) {
                        return;
                    }
                    if n <= 320 && !pair {
                        if !f(Case::CustomError { code: -(n as i16), msg: v.clone(), ext: None }) || !f(Case::CustomError { code: n as i16, msg: b"M".to_vec(), ext: Some(v) }) {
                            return;
                        }
                    }
                }
            }
        },
        check,
    );
    if !cfg!(debug_assertions) {
        // the digit count of the block header changes at every power of ten
        // (up to 10^8 in the default configuration; 10^9 - 1, the largest length the format can
        // express, and 10^9, which must be refused, in the thorough tier)
        let top = if crate::engine::ALT_CONFIG { 7u32 } else { 8 };
        let mut edges: Vec<Case> = (0..=top).flat_map(|k| { let p = 10u32.pow(k); [p.saturating_sub(1), p, p + 1] }).map(Case::BigBlock).collect();
        // a length the 9-digit field cannot express must be refused (zero pages, never read)
        edges.push(Case::BigBlockRefused(1_000_000_000));
        edges.push(Case::BigBlockRefused(4_000_000_000));
        if e.tier == crate::engine::Tier::Thorough && !crate::engine::ALT_CONFIG {
            edges.push(Case::BigBlock(999_999_999));
        }
        e.fixed("block-length-at-every-power-of-ten", edges, check);
    }
    e.proptest("values-of-every-type", e.tier.pick(1_000_000, 30_000_000), case_strategy, check);
}
