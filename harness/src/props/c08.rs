//! C08 — float, boolean and keyword parameters convert to the exact denoted value;
//! every conversion accepts only its documented element types.
use crate::conv::{Kind, Out, Target};
use crate::engine::{CheckResult, Engine, Obs, PropertyMeta};
use crate::gen::lit::{render, style_strategy, wide_literal, zero_literal, Style};
use crate::model::big::expand_binary;
use crate::model::dec::{self, Inter};
use crate::model::esr::is_command_error;
use crate::model::mnemonic::keyword_matches;
use crate::{ensure, fail};
use proptest::prelude::*;
use scpi::parser::tokenizer::Token;
use serde::{Deserialize, Serialize};

pub fn meta() -> PropertyMeta {
    PropertyMeta {
        id: "C08",
        level: "exploration",
        rule: "decimal literals for f32 and f64: (i) random 1..40-digit strings with exponents -420..420, (ii) exact decimal expansions of the midpoint between adjacent floats for boundary (zero, subnormal edge, powers of two, MAX, all-ones mantissa) and random bit patterns, and that expansion nudged one unit up/down in its last place, (iii) shortest and 17-digit renderings of random floats, all in NRf spellings; float keywords in short/long form x case and near misses; boolean words and decimal literals around 0 and 0.5; the full matrix of 20 target types x 7 element kinds. Oracle: Rust std str::parse (correctly rounded) compared bit for bit; exact decimal rounding for booleans; documented accept lists for the matrix. Added: midpoints cut to 6..30 significant digits (just below / above), in plain unsigned notation at moderate magnitudes; short literals (<= 19 digits, small or no exponent); exponent fields at the limits of 32/64-bit arithmetic; short literals within less than an f64 can resolve of an f32 midpoint (double-rounding traps, found by scanning every 256th (8th) f32 bit pattern for midpoints whose decimal expansion continues with a run of zeros or nines); exact midpoints with the tie-breaking digit up to 70 000 places out; EVERY letter string up to 5 (6) characters as a character datum of bool / f32 / f64; libFuzzer target c08_dec (thorough). Non-trivial: a halfway or >= 17-digit literal, a literal in the subnormal or overflow range, a boolean spelled other than 0/1/ON/OFF, or an off-diagonal matrix cell.",
        assumptions: &[
            "Rust std float parsing is correctly rounded (trusted reference)",
            "a boolean whose magnitude exceeds isize may answer true or -222",
            "a rejected element must produce Err; when the element type is not in the accept list the code must be a command error (-100..-199); for an accepted type with an unacceptable value any error code is taken",
        ],
        run,
    }
}

#[derive(Clone, Debug, Serialize, Deserialize, Hash)]
pub enum Case {
    Float { single: bool, lit: String, halfway: bool },
    FloatWord { single: bool, word: String },
    BoolLit { lit: String },
    BoolWord { word: String },
    /// character data built by device code (any bytes) read as bool (0) / f32 (1) / f64 (2)
    WordBytes { target: u8, bytes: Vec<u8> },
    Matrix { target: Target, kind: Kind, text: Vec<u8>, suffix: String, value: u64 },
}

/// Known finding KF2 (DESIGN 12): with the crate's `compact` feature, lexical-parse-float 0.8.5
/// rounds a float literal of 20 or more significant digits that lies at or very near the midpoint
/// of two adjacent floats to the wrong neighbour (one ulp off; about one random f64 literal in two
/// million, and exact f32 / f64 midpoints written out in full). The class is excluded (and counted) in the alternative configuration
/// so that the search goes on; the campaign `compact-long-f64-literals` reports it.
fn is_kf2(lit: &str, ulps_off: i64, finite: bool) -> bool {
    let sig = lit.split(['e', 'E']).next().unwrap_or("").bytes().filter(|c| c.is_ascii_digit()).skip_while(|c| *c == b'0').count();
    (crate::engine::ALT_CONFIG || crate::engine::MIN_CONFIG) && sig >= 20 && finite && ulps_off.abs() == 1
}

fn check_float(single: bool, lit: &str, halfway: bool, obs: &Obs, key: &Case) -> CheckResult {
    check_float_opt(single, lit, halfway, true, obs, key)
}

fn check_float_opt(single: bool, lit: &str, halfway: bool, exclude_known: bool, obs: &Obs, key: &Case) -> CheckResult {
    let tok = Token::DecimalNumericProgramData(lit.as_bytes());
    let digits = lit.bytes().filter(|c| c.is_ascii_digit()).count();
    if single {
        let want: f32 = match lit.parse() {
            Ok(v) => v,
            Err(_) => fail!("harness-literal", "std cannot parse generated literal {lit:?}"),
        };
        let extreme = want == 0.0 || want.is_infinite() || want.is_subnormal();
        obs.nontrivial_if(halfway || digits >= 17 || extreme, key);
        obs.label("f32 literal");
        obs.label_if(halfway, "halfway literal");
        obs.label_if(extreme, "subnormal / underflow / overflow range");
        match f32::try_from(tok) {
            Ok(got) => {
                if got.to_bits() != want.to_bits() {
                    if is_kf2(lit, got.to_bits() as i64 - want.to_bits() as i64, got.is_finite() && want.is_finite()) {
                        if exclude_known {
                            obs.label("excluded: known finding KF2 (compact, >= 20 digits, one ulp)");
                            return Ok(());
                        }
                        fail!("float-misrounded-long-1ulp", "f32::try_from({lit}) = {got:e} ({:#010x}), correctly rounded value is {want:e} ({:#010x})", got.to_bits(), want.to_bits());
                    }
                    let sig = if got == want { "zero-sign" } else { "float-misrounded" };
                    fail!(sig, "f32::try_from({lit}) = {got:e} ({:#010x}), correctly rounded value is {want:e} ({:#010x})", got.to_bits(), want.to_bits());
                }
            }
            Err(e) => fail!("float-rejected", "f32::try_from({lit}) = Err({}), expected {want:e}", e.get_code()),
        }
    } else {
        let want: f64 = match lit.parse() {
            Ok(v) => v,
            Err(_) => fail!("harness-literal", "std cannot parse generated literal {lit:?}"),
        };
        let extreme = want == 0.0 || want.is_infinite() || want.is_subnormal();
        obs.nontrivial_if(halfway || digits >= 17 || extreme, key);
        obs.label("f64 literal");
        obs.label_if(halfway, "halfway literal");
        obs.label_if(extreme, "subnormal / underflow / overflow range");
        match f64::try_from(tok) {
            Ok(got) => {
                if got.to_bits() != want.to_bits() {
                    if is_kf2(lit, got.to_bits() as i64 - want.to_bits() as i64, got.is_finite() && want.is_finite()) {
                        if exclude_known {
                            obs.label("excluded: known finding KF2 (compact, >= 20 digits, one ulp)");
                            return Ok(());
                        }
                        fail!("float-misrounded-long-1ulp", "f64::try_from({lit}) = {got:e} ({:#018x}), correctly rounded value is {want:e} ({:#018x})", got.to_bits(), want.to_bits());
                    }
                    let sig = if got == want { "zero-sign" } else { "float-misrounded" };
                    fail!(sig, "f64::try_from({lit}) = {got:e} ({:#018x}), correctly rounded value is {want:e} ({:#018x})", got.to_bits(), want.to_bits());
                }
            }
            Err(e) => fail!("float-rejected", "f64::try_from({lit}) = Err({}), expected {want:e}", e.get_code()),
        }
    }
    Ok(())
}

fn float_word_expect(word: &[u8]) -> Option<&'static str> {
    for (def, name) in [
        (&b"INFinity"[..], "inf"),
        (b"NINFinity", "-inf"),
        (b"NAN", "nan"),
        (b"MAXimum", "max"),
        (b"MINimum", "min"),
    ] {
        if keyword_matches(def, word) {
            return Some(name);
        }
    }
    None
}

fn check_float_word(single: bool, word: &str, obs: &Obs, key: &Case) -> CheckResult {
    obs.label("float keyword candidate");
    obs.nontrivial(key);
    let want = float_word_expect(word.as_bytes());
    let tok = Token::CharacterProgramData(word.as_bytes());
    let got: Result<f64, _> = if single { f32::try_from(tok).map(|v| v as f64) } else { f64::try_from(tok) };
    let (max, min) = if single { (f32::MAX as f64, f32::MIN as f64) } else { (f64::MAX, f64::MIN) };
    match (want, got) {
        (None, Ok(v)) => fail!("keyword-accepted", "float from character datum {word:?} = Ok({v:e}); not a keyword"),
        (None, Err(_)) => {}
        (Some(name), Err(e)) => fail!("keyword-rejected", "float from {word:?} = Err({}), keyword {name}", e.get_code()),
        (Some(name), Ok(v)) => {
            obs.label("float keyword");
            let ok = match name {
                "inf" => v == f64::INFINITY,
                "-inf" => v == f64::NEG_INFINITY,
                "nan" => v.is_nan(),
                "max" => v == max,
                _ => v == min,
            };
            ensure!(ok, "keyword-value", "float from {word:?} = {v:e}, keyword denotes {name}");
        }
    }
    Ok(())
}

fn check_bool_lit(lit: &str, obs: &Obs, key: &Case) -> CheckResult {
    let Some(d) = dec::parse(lit.as_bytes()) else {
        fail!("harness-literal", "reference reader rejects {lit:?}");
    };
    obs.label("boolean decimal literal");
    obs.nontrivial_if(lit != "0" && lit != "1", key);
    let set = dec::rounding_set(&d, Inter::F64);
    let got = bool::try_from(Token::DecimalNumericProgramData(lit.as_bytes()));
    match set {
        Some((lo, hi)) => {
            let has_zero = lo <= 0 && 0 <= hi;
            let has_nonzero = lo != 0 || hi != 0;
            let beyond = lo < isize::MIN as i128 || hi > isize::MAX as i128;
            obs.label_if(has_zero && has_nonzero, "boolean at a tie");
            match got {
                Ok(b) => {
                    ensure!(!(b && !has_nonzero), "bool-value", "bool::try_from({lit}) = true, the value rounds to 0");
                    ensure!(!(!b && !has_zero), "bool-value", "bool::try_from({lit}) = false, the value rounds to a non-zero integer ({lo}..={hi})");
                }
                Err(e) => {
                    ensure!(beyond && e.get_code() == -222, "bool-rejected", "bool::try_from({lit}) = Err({}), the value rounds to {lo}..={hi}", e.get_code());
                }
            }
        }
        None => match got {
            Ok(b) => ensure!(b, "bool-value", "bool::try_from({lit}) = false for a huge value"),
            Err(e) => ensure!(e.get_code() == -222, "bool-rejected", "bool::try_from({lit}) = Err({})", e.get_code()),
        },
    }
    Ok(())
}

fn check_bool_word(word: &str, obs: &Obs, key: &Case) -> CheckResult {
    obs.label("boolean word");
    obs.nontrivial_if(word != "ON" && word != "OFF", key);
    let got = bool::try_from(Token::CharacterProgramData(word.as_bytes()));
    let want = if word.eq_ignore_ascii_case("ON") {
        Some(true)
    } else if word.eq_ignore_ascii_case("OFF") {
        Some(false)
    } else {
        None
    };
    match (want, got) {
        (Some(w), Ok(g)) => ensure!(w == g, "bool-value", "bool::try_from({word}) = {g}"),
        (Some(_), Err(e)) => fail!("bool-rejected", "bool::try_from({word}) = Err({})", e.get_code()),
        (None, Ok(g)) => fail!("bool-accepted", "bool::try_from({word}) = Ok({g}) for a word that is neither ON nor OFF"),
        (None, Err(_)) => {}
    }
    Ok(())
}

/// Does the documented accept list of `target` contain element kind `kind`?
pub fn accepts(target: Target, kind: Kind) -> bool {
    match target {
        Target::Int(_) => matches!(kind, Kind::Dec | Kind::NonDec | Kind::Chr),
        Target::F32 | Target::F64 => matches!(kind, Kind::Dec | Kind::Chr),
        Target::Bool => matches!(kind, Kind::Dec | Kind::Chr),
        Target::Bytes => kind == Kind::Str,
        Target::Str => matches!(kind, Kind::Str | Kind::Block),
        Target::Arb => kind == Kind::Block,
        Target::Chr => kind == Kind::Chr,
        Target::Expr | Target::NumList | Target::ChanList => kind == Kind::Expr,
    }
}

fn check_matrix(target: Target, kind: Kind, text: &[u8], suffix: &str, value: u64, obs: &Obs, key: &Case) -> CheckResult {
    let tok = match kind {
        Kind::Chr => Token::CharacterProgramData(text),
        Kind::Dec => Token::DecimalNumericProgramData(text),
        Kind::DecSuffix => Token::DecimalNumericSuffixProgramData(text, suffix.as_bytes()),
        Kind::NonDec => Token::NonDecimalNumericProgramData(value),
        Kind::Str => Token::StringProgramData(text),
        Kind::Block => Token::ArbitraryBlockData(text),
        Kind::Expr => Token::ExpressionProgramData(text),
    };
    obs.label("matrix cell");
    let acc = accepts(target, kind);
    obs.label_if(!acc, "matrix cell outside the accept list");
    obs.nontrivial_if(!acc || matches!(target, Target::Str | Target::ChanList), key);
    let got = target.convert(tok);
    if !acc {
        match got {
            Ok(v) => fail!("matrix-accepted", "{target:?} from {tok:?} = Ok({v:?}); element type not documented for this target"),
            Err(e) => ensure!(is_command_error(e.get_code()), "matrix-error-class", "{target:?} from {tok:?} = Err({}); must be a command error", e.get_code()),
        }
        return Ok(());
    }
    // accepted kinds: payload pass-through targets must return the payload
    match target {
        Target::Bytes | Target::Arb | Target::Chr | Target::Expr => {
            ensure!(got == Ok(Out::Bytes(text.to_vec())), "matrix-payload", "{target:?} from {tok:?} = {got:?}; payload must pass through unchanged");
        }
        Target::Str => match std::str::from_utf8(text) {
            Ok(_) => ensure!(got == Ok(Out::Bytes(text.to_vec())), "matrix-payload", "&str from {tok:?} = {got:?}"),
            Err(_) => ensure!(got.is_err(), "matrix-payload", "&str from non UTF-8 {tok:?} = {got:?}"),
        },
        Target::NumList => ensure!(got == Ok(Out::NumList), "matrix-payload", "NumericList from {tok:?} = {got:?}"),
        Target::ChanList => {
            if text.first() == Some(&b'@') {
                ensure!(got == Ok(Out::ChanList), "matrix-payload", "ChannelList from {tok:?} = {got:?}");
            } else {
                ensure!(got.is_err(), "matrix-payload", "ChannelList from an expression without @ = {got:?}");
            }
        }
        // numeric targets with accepted kinds are judged by the dedicated cases / C07
        _ => {}
    }
    Ok(())
}

/// Fuzz decoding: first byte selects f32 / f64 / bool, the rest is a decimal
/// literal that both the reference reader and std accept.
pub fn decode_text(data: &[u8]) -> Option<Case> {
    let (k, rest) = data.split_first()?;
    let lit = std::str::from_utf8(rest).ok()?;
    // only what the lexer itself hands to a conversion as one decimal element
    if crate::conv::lex_single(rest) != Some(Token::DecimalNumericProgramData(rest)) {
        return None;
    }
    if lit.len() > 400 || dec::parse(rest).is_none() || lit.parse::<f64>().is_err() {
        return None;
    }
    Some(match k % 3 {
        0 => Case::Float { single: true, lit: lit.to_string(), halfway: false },
        1 => Case::Float { single: false, lit: lit.to_string(), halfway: false },
        _ => Case::BoolLit { lit: lit.to_string() },
    })
}

pub fn check(case: &Case, obs: &Obs) -> CheckResult {
    match case {
        Case::Float { single, lit, halfway } => check_float(*single, lit, *halfway, obs, case),
        Case::FloatWord { single, word } => check_float_word(*single, word, obs, case),
        Case::BoolLit { lit } => check_bool_lit(lit, obs, case),
        Case::BoolWord { word } => check_bool_word(word, obs, case),
        Case::WordBytes { target, bytes } => match (std::str::from_utf8(bytes), target) {
            (Ok(w), 0) if bytes.is_ascii() => check_bool_word(w, obs, case),
            (Ok(w), t) if bytes.is_ascii() => check_float_word(*t == 1, w, obs, case),
            _ => {
                // a byte above 0x7F is in no keyword
                obs.label("keyword candidate with a non-ASCII byte");
                obs.nontrivial(case);
                let tok = Token::CharacterProgramData(bytes);
                let accepted = match target {
                    0 => bool::try_from(tok).map(|v| v.to_string()).ok(),
                    1 => f32::try_from(tok).map(|v| format!("{v:e}")).ok(),
                    _ => f64::try_from(tok).map(|v| format!("{v:e}")).ok(),
                };
                if let Some(v) = accepted {
                    fail!("keyword-accepted", "{} from character datum {:?} = Ok({v}); not a keyword", ["bool", "f32", "f64"][*target as usize % 3], crate::bytes::escape(bytes));
                }
                Ok(())
            }
        },
        Case::Matrix { target, kind, text, suffix, value } => check_matrix(*target, *kind, text, suffix, *value, obs, case),
    }
}

// ---------------------------------------------------------------- generators

fn f64_pattern() -> impl Strategy<Value = u64> {
    prop_oneof![
        4 => any::<u64>().prop_map(|b| b & 0x7FFF_FFFF_FFFF_FFFF),
        1 => Just(0u64),
        1 => (0u64..4),
        1 => Just(0x000F_FFFF_FFFF_FFFFu64),            // largest subnormal
        1 => Just(0x0010_0000_0000_0000u64),            // smallest normal
        1 => Just(0x7FEF_FFFF_FFFF_FFFFu64),            // MAX
        2 => (0u64..2047).prop_map(|e| e << 52),        // powers of two
        2 => (0u64..2047).prop_map(|e| (e << 52) | 0x000F_FFFF_FFFF_FFFF), // all-ones mantissa
        2 => (1000u64..1100, any::<u64>()).prop_map(|(e, m)| (e << 52) | (m & 0x000F_FFFF_FFFF_FFFF)), // around 1.0 .. 2^77
    ]
    .prop_filter("finite", |b| (b >> 52) & 0x7FF != 0x7FF)
}

fn f32_pattern() -> impl Strategy<Value = u32> {
    prop_oneof![
        4 => any::<u32>().prop_map(|b| b & 0x7FFF_FFFF),
        1 => Just(0u32),
        1 => (0u32..4),
        1 => Just(0x007F_FFFFu32),
        1 => Just(0x0080_0000u32),
        1 => Just(0x7F7F_FFFFu32),
        2 => (0u32..255).prop_map(|e| e << 23),
        2 => (0u32..255).prop_map(|e| (e << 23) | 0x007F_FFFF),
        2 => (100u32..160, any::<u32>()).prop_map(|(e, m)| (e << 23) | (m & 0x007F_FFFF)),
    ]
    .prop_filter("finite", |b| (b >> 23) & 0xFF != 0xFF)
}

/// Exact decimal digits (integer part, fraction part) of the midpoint between
/// the float with the given bits and its successor.
fn midpoint_f64(bits: u64) -> (String, String) {
    let exp = ((bits >> 52) & 0x7FF) as i32;
    let frac = bits & 0x000F_FFFF_FFFF_FFFF;
    let (m, e) = if exp == 0 { (frac, -1074) } else { (frac | (1 << 52), exp - 1075) };
    expand_binary(2 * m as u128 + 1, e - 1)
}

fn midpoint_f32(bits: u32) -> (String, String) {
    let exp = ((bits >> 23) & 0xFF) as i32;
    let frac = bits & 0x007F_FFFF;
    let (m, e) = if exp == 0 { (frac, -149) } else { (frac | (1 << 23), exp - 150) };
    expand_binary(2 * m as u128 + 1, e - 1)
}

fn nudge(ip: &str, fp: &str, how: u8) -> (String, u32) {
    // returns (all digits, scale)
    let mut digits = format!("{ip}{fp}");
    let mut scale = fp.len() as u32;
    match how {
        0 => {}
        1 => {
            // slightly above: append a far 1
            digits.push_str("0000000001");
            scale += 10;
        }
        _ => {
            // slightly below: decrement the last non-zero digit, append 9s
            let mut b = digits.into_bytes();
            if let Some(p) = b.iter().rposition(|c| *c != b'0') {
                b[p] -= 1;
                for c in b[p + 1..].iter_mut() {
                    *c = b'9';
                }
            }
            digits = String::from_utf8(b).unwrap();
            digits.push_str("9999999999");
            scale += 10;
        }
    }
    (digits, scale)
}

/// The midpoint's expansion cut to `k` significant digits: truncated (just
/// below the midpoint) or with the last kept digit raised (just above). For k
/// around 15..17 the literal is closer to the midpoint than the spacing of the
/// doubles there, which is where parsing via a wider type rounds twice.
fn round_sig(ip: &str, fp: &str, k: usize, up: bool) -> (String, u32) {
    let all = format!("{ip}{fp}").into_bytes();
    let Some(first) = all.iter().position(|c| *c != b'0') else { return (String::from_utf8(all).unwrap(), fp.len() as u32) };
    let cut = first + k;
    if cut >= all.len() {
        return (String::from_utf8(all).unwrap(), fp.len() as u32);
    }
    let mut d = all[..cut].to_vec();
    let mut grew = 0usize;
    if up {
        let mut i = d.len();
        loop {
            if i == 0 {
                d.insert(0, b'1');
                grew = 1;
                break;
            }
            i -= 1;
            if d[i] == b'9' {
                d[i] = b'0';
            } else {
                d[i] += 1;
                break;
            }
        }
    }
    let ip_len = ip.len() + grew;
    if d.len() < ip_len {
        d.resize(ip_len, b'0');
        (String::from_utf8(d).unwrap(), 0)
    } else {
        let scale = (d.len() - ip_len) as u32;
        (String::from_utf8(d).unwrap(), scale)
    }
}

fn halfway_case() -> impl Strategy<Value = Case> {
    let style = || (style_strategy(0), prop_oneof![3 => Just(0i32), 1 => -40i32..40]).prop_map(|(mut st, sh)| {
        st.exp_shift = sh;
        st
    });
    prop_oneof![
        (f64_pattern(), 0u8..3, any::<bool>(), style()).prop_map(|(bits, how, neg, st)| {
            let (ip, fp) = midpoint_f64(bits);
            let (digits, scale) = nudge(&ip, &fp, how);
            Case::Float { single: false, lit: render(neg, &digits, scale, &st), halfway: true }
        }),
        (f32_pattern(), 0u8..3, any::<bool>(), style()).prop_map(|(bits, how, neg, st)| {
            let (ip, fp) = midpoint_f32(bits);
            let (digits, scale) = nudge(&ip, &fp, how);
            Case::Float { single: true, lit: render(neg, &digits, scale, &st), halfway: true }
        }),
        // midpoints cut to k significant digits (short literals next to a midpoint)
        (f32_pattern(), 6usize..=20, any::<bool>(), any::<bool>(), style()).prop_map(|(bits, k, up, neg, st)| {
            let (ip, fp) = midpoint_f32(bits);
            let (digits, scale) = round_sig(&ip, &fp, k, up);
            Case::Float { single: true, lit: render(neg, &digits, scale, &st), halfway: true }
        }),
        (f32_pattern(), 12usize..=17, any::<bool>(), any::<bool>()).prop_map(|(bits, k, up, neg)| {
            let (ip, fp) = midpoint_f32(bits);
            let (digits, scale) = round_sig(&ip, &fp, k, up);
            Case::Float { single: true, lit: render(neg, &digits, scale, &Style::plain()), halfway: true }
        }),
        // the same for moderate magnitudes (2^-10 .. 2^30) in plain notation, mostly unsigned:
        // the shape for which float readers take a "few digits, no exponent" shortcut
        (117u32..158, any::<u32>(), 9usize..=17, any::<bool>(), prop_oneof![3 => Just(false), 1 => Just(true)]).prop_map(|(e, m, k, up, neg)| {
            let bits = (e << 23) | (m & 0x007F_FFFF);
            let (ip, fp) = midpoint_f32(bits);
            let (digits, scale) = round_sig(&ip, &fp, k, up);
            Case::Float { single: true, lit: render(neg, &digits, scale, &Style::plain()), halfway: true }
        }),
        (f64_pattern(), 15usize..=30, any::<bool>(), any::<bool>(), style()).prop_map(|(bits, k, up, neg, st)| {
            let (ip, fp) = midpoint_f64(bits);
            let (digits, scale) = round_sig(&ip, &fp, k, up);
            Case::Float { single: false, lit: render(neg, &digits, scale, &st), halfway: true }
        }),
        // an exact midpoint whose tie is broken by a digit FAR out: the fraction padded with zeros to a
        // total of F digits, then a 1 (just above), or the 9-tail of "just below" drawn out to F digits;
        // F at the sizes where a reader might stop looking (767/768 significant digits, 1074/1075
        // places, 2^11, 2^12, 2^16) - the verdict still depends on the last digit
        (prop_oneof![1 => f64_pattern().prop_map(|b| (b, false)), 1 => f32_pattern().prop_map(|b| (b as u64, true)),
                     2 => (1010u64..1040, any::<u64>()).prop_map(|(e, m)| ((e << 52) | (m & 0x000F_FFFF_FFFF_FFFF), false)),
                     2 => (117u32..140, any::<u32>()).prop_map(|(e, m)| (((e << 23) | (m & 0x007F_FFFF)) as u64, true))],
         proptest::sample::select(vec![60usize, 100, 400, 766, 767, 768, 769, 800, 1022, 1023, 1024, 1073, 1074, 1075, 1076, 1100, 2046, 2047, 2048, 2049, 2050, 2100, 4095, 4096, 4097, 8192, 65_535, 65_536, 65_537, 70_000]),
         any::<bool>(), any::<bool>(), any::<bool>()).prop_map(|((bits, is32), total, above, neg, read_single)| {
            let (ip, fp) = if is32 { midpoint_f32(bits as u32) } else { midpoint_f64(bits) };
            let ipl = ip.len();
            let mut all = format!("{ip}{fp}").into_bytes();
            if above {
                while all.len() - ipl < total { all.push(b'0'); }
                all.push(b'1');
            } else {
                if let Some(p) = all.iter().rposition(|c| *c != b'0') {
                    all[p] -= 1;
                    for c in all[p + 1..].iter_mut() { *c = b'9'; }
                }
                while all.len() - ipl <= total { all.push(b'9'); }
            }
            let scale = (all.len() - ipl) as u32;
            let digits = String::from_utf8(all).unwrap();
            Case::Float { single: read_single, lit: render(neg, &digits, scale, &Style::plain()), halfway: true }
        }),
        // an f32 midpoint read as f64 and vice versa (double rounding traps)
        (f32_pattern(), 0u8..3, any::<bool>()).prop_map(|(bits, how, neg)| {
            let (ip, fp) = midpoint_f32(bits);
            let (digits, scale) = nudge(&ip, &fp, how);
            Case::Float { single: false, lit: render(neg, &digits, scale, &Style::plain()), halfway: true }
        }),
    ]
}

fn printed_float_case() -> impl Strategy<Value = Case> {
    prop_oneof![
        (f64_pattern(), 0u8..3, any::<bool>()).prop_map(|(bits, how, neg)| {
            let x = f64::from_bits(bits);
            let s = match how { 0 => format!("{x:e}"), 1 => format!("{x:.16e}"), _ => format!("{x:.20E}") };
            Case::Float { single: false, lit: format!("{}{s}", if neg { "-" } else { "" }), halfway: false }
        }),
        (f32_pattern(), 0u8..3, any::<bool>(), any::<bool>()).prop_map(|(bits, how, neg, single)| {
            let x = f32::from_bits(bits);
            let s = match how { 0 => format!("{x:e}"), 1 => format!("{x:.8e}"), _ => format!("{x:.12E}") };
            Case::Float { single, lit: format!("{}{s}", if neg { "-" } else { "" }), halfway: false }
        }),
    ]
}

fn float_word() -> impl Strategy<Value = String> {
    let words = [
        "INFinity", "NINFinity", "NAN", "MAXimum", "MINimum", "INF", "NINF", "MAX", "MIN", "INFI", "INFINIT", "INFINITYY", "NINFI", "NINFINIT", "NA", "NANN", "MAXI", "MINIMU", "IN", "NIN", "N", "DEFault", "UP",
        "DOWN", "ON", "OFF", "INF1", "NAN1", "MAX1",
    ];
    prop_oneof![
        5 => (0usize..words.len(), 0u8..4, any::<u16>()).prop_map(move |(i, c, mask)| {
            let w = words[i].to_string();
            match c {
                0 => w,
                1 => w.to_ascii_lowercase(),
                2 => w.to_ascii_uppercase(),
                _ => w.bytes().enumerate().map(|(k, b)| if mask >> (k % 16) & 1 == 1 { (b as char).to_ascii_lowercase() } else { (b as char).to_ascii_uppercase() }).collect(),
            }
        }),
        1 => "[A-Za-z][A-Za-z0-9_]{0,11}",
    ]
}

fn bool_word() -> impl Strategy<Value = String> {
    let words = ["ON", "OFF", "on", "off", "On", "oFf", "O", "OF", "ONN", "OFFF", "TRUE", "FALSE", "YES", "NO", "ON1", "OFF0", "MAX", "MIN", "N", "FF"];
    prop_oneof![
        5 => (0usize..words.len()).prop_map(move |i| words[i].to_string()),
        1 => "[A-Za-z][A-Za-z0-9_]{0,5}",
    ]
}

fn bool_lit() -> impl Strategy<Value = String> {
    prop_oneof![
        3 => zero_literal(),
        6 => (prop_oneof![Just(0i128), Just(1i128), Just(-1i128), Just(2i128), -300i128..300], any::<bool>(), crate::gen::lit::frac_strategy(), style_strategy(20))
            .prop_map(|(n, nz, frac, st)| crate::gen::lit::around_int(n, nz, &frac, &st)),
        2 => wide_literal(),
        1 => Just("1e-9".to_string()),
        1 => Just("1e30".to_string()),
        1 => Just("9223372036854775807.6".to_string()),
    ]
}

fn matrix_case() -> impl Strategy<Value = Case> {
    (0usize..Target::ALL.len(), 0usize..Kind::ALL.len()).prop_flat_map(|(t, k)| {
        let target = Target::ALL[t];
        let kind = Kind::ALL[k];
        let text: BoxedStrategy<Vec<u8>> = match kind {
            Kind::Chr => prop_oneof![
                2 => "[A-Za-z][A-Za-z0-9_]{0,11}".prop_map(String::into_bytes),
                1 => float_word().prop_map(String::into_bytes),
            ].boxed(),
            Kind::Dec | Kind::DecSuffix => wide_literal().prop_map(String::into_bytes).boxed(),
            Kind::NonDec => Just(Vec::new()).boxed(),
            // (a quoted / block / expression element that merely spells a keyword or a number is still not one)
            Kind::Str => prop_oneof![4 => "[ -~\\t\\n]{0,20}".prop_map(String::into_bytes), 1 => float_word().prop_map(String::into_bytes), 1 => bool_word().prop_map(String::into_bytes), 1 => "[0-9]{1,3}".prop_map(String::into_bytes)].boxed(),
            Kind::Block => prop_oneof![
                2 => proptest::collection::vec(any::<u8>(), 0..24),
                1 => "[ -~]{0,20}".prop_map(String::into_bytes),
                1 => "\\PC{0,8}".prop_map(String::into_bytes),
                1 => float_word().prop_map(String::into_bytes),
                1 => bool_word().prop_map(String::into_bytes),
            ].boxed(),
            Kind::Expr => prop_oneof![
                1 => "[ !#-&*-:<-~]{0,20}".prop_map(String::into_bytes),
                1 => "@[0-9!:,]{0,12}".prop_map(String::into_bytes),
                1 => "[0-9.:,e+-]{0,12}".prop_map(String::into_bytes),
                1 => float_word().prop_map(String::into_bytes),
                1 => bool_word().prop_map(String::into_bytes),
            ].boxed(),
        };
        (Just(target), Just(kind), text, "[A-Za-z][A-Za-z0-9./-]{0,6}", any::<u64>())
            .prop_map(|(target, kind, text, suffix, value)| Case::Matrix { target, kind, text, suffix, value })
    })
}

fn case_strategy() -> impl Strategy<Value = Case> {
    prop_oneof![
        30 => halfway_case(),
        20 => (any::<bool>(), wide_literal()).prop_map(|(single, lit)| Case::Float { single, lit, halfway: false }),
        12 => printed_float_case(),
        1 => (any::<bool>(), crate::gen::lit::compensated_exponent_literal()).prop_map(|(single, lit)| Case::Float { single, lit, halfway: false }),
        2 => (any::<bool>(), crate::gen::lit::extreme_exponent_literal()).prop_map(|(single, lit)| Case::Float { single, lit, halfway: false }),
        1 => crate::gen::lit::extreme_exponent_literal().prop_map(|lit| Case::BoolLit { lit }),
        // short literals: at most 19 digits, small or no exponent (the range of the readers' shortcuts)
        10 => (any::<bool>(), prop_oneof![3 => Just(false), 1 => Just(true)], "[0-9]{1,19}", 0u32..22, prop_oneof![2 => Just(None), 1 => (-30i32..=30).prop_map(Some)]).prop_map(|(single, neg, digits, scale, exp)| {
            let scale = scale.min(digits.len() as u32 + 2);
            let mut st = Style::plain();
            let lit = match exp {
                None => render(neg, &digits, scale, &st),
                Some(x) => {
                    st.exp_shift = x;
                    render(neg, &digits, scale, &st)
                }
            };
            Case::Float { single, lit, halfway: false }
        }),
        3 => (any::<bool>(), zero_literal()).prop_map(|(single, lit)| Case::Float { single, lit, halfway: false }),
        6 => (any::<bool>(), float_word()).prop_map(|(single, word)| Case::FloatWord { single, word }),
        8 => bool_lit().prop_map(|lit| Case::BoolLit { lit }),
        4 => bool_word().prop_map(|word| Case::BoolWord { word }),
        17 => matrix_case(),
    ]
}

/// Short literals that lie within a hair of the midpoint of two adjacent f32 values without
/// being it: the midpoint's exact decimal expansion happens to continue with a run of zeros
/// (or nines) after `k` digits, so the k-digit literal is closer to the midpoint than an f64
/// can tell. A reader that goes through a double and narrows it rounds twice and lands on the
/// wrong neighbour; the correctly rounded result (std) is what counts. Found by scanning f32
/// bit patterns; the scan is part of the generator, the oracle is the same as everywhere.
fn double_rounding_traps(bits: u32, s: &mut String, out: &mut dyn FnMut(String) -> bool) -> bool {
    let a = f32::from_bits(bits);
    let b = f32::from_bits(bits + 1);
    if !b.is_finite() || a == 0.0 {
        return true;
    }
    let mid = (a as f64 + b as f64) / 2.0; // exact: 25 significant bits
    {
        use std::fmt::Write;
        s.clear();
        let _ = write!(s, "{mid:.30e}");
    }
    // d.dddddddddddddddddddddddddddddde-xx : 31 digits around one '.'
    let sb = s.as_bytes();
    let mut digits = [0u8; 31];
    digits[0] = sb[0];
    digits[1..].copy_from_slice(&sb[2..32]);
    let exp: i32 = s[33..].parse().unwrap();
    for k in 6..=16usize {
        let z = 18usize.saturating_sub(k).max(4);
        let tail = &digits[k..k + z];
        let zeros = tail.iter().all(|c| *c == b'0');
        let nines = tail.iter().all(|c| *c == b'9');
        if !(zeros || nines) || (zeros && digits[k..].iter().all(|c| *c == b'0')) {
            continue;
        }
        let mut head = digits[..k].to_vec();
        let mut e10 = exp - (k as i32 - 1);
        if nines {
            // round the k-digit head up
            let mut i = k;
            loop {
                if i == 0 {
                    head.insert(0, b'1');
                    head.pop();
                    e10 += 1;
                    break;
                }
                i -= 1;
                if head[i] == b'9' {
                    head[i] = b'0';
                } else {
                    head[i] += 1;
                    break;
                }
            }
        }
        let m = String::from_utf8(head).unwrap();
        // three spellings: integer mantissa with exponent, d.ddd with exponent, and without the trailing zeros
        let trimmed = m.trim_end_matches('0');
        let e_trim = e10 + (m.len() - trimmed.len()) as i32;
        for lit in [format!("{m}e{e10}"), format!("{}.{}E{}", &m[..1], &m[1..], e10 + k as i32 - 1), format!("{}e{e_trim}", if trimmed.is_empty() { "0" } else { trimmed })] {
            if !out(lit) {
                return false;
            }
        }
    }
    true
}

fn run(e: &Engine) {
    // scan: every exponent field x a stride of mantissas (quick: every 64th from a seed-dependent offset; thorough: every 4th)
    if !cfg!(debug_assertions) {
        let stride: u32 = e.tier.pick(256, 8);
        let offset = (e.seed as u32).wrapping_mul(2654435761) % stride;
        e.enumerate::<Case, _, _>(
            "f32-double-rounding-traps",
            254 * 8,
            move |part, f| {
                let expo = 1 + (part / 8) as u32;
                let slice = (part % 8) as u32;
                let mut m = slice * (1 << 20) + offset;
                let mut buf = String::with_capacity(48);
                while m < (slice + 1) * (1 << 20) {
                    let bits = (expo << 23) | m;
                    if !double_rounding_traps(bits, &mut buf, &mut |lit| f(Case::Float { single: true, lit: lit.clone(), halfway: true }) && f(Case::Float { single: false, lit: format!("-{lit}"), halfway: false })) {
                        return;
                    }
                    m += stride;
                }
            },
            check,
        );
    }
    e.proptest("literals-keywords-matrix", e.tier.pick(4_000_000, 60_000_000), case_strategy, check);
    if !e.replay_only && !e.failed() {
        let floats = e.label_count("f32 literal") + e.label_count("f64 literal");
        let half = e.label_count("halfway literal");
        if (half as f64) < 0.2 * floats as f64 {
            e.harness_error(format!("generator unhealthy: halfway literals {half} of {floats} float literals"));
        }
    }
    if e.tier == crate::engine::Tier::Thorough {
        e.fuzz("fuzz-c08_dec", "c08_dec", 64_000_000, |b| decode_text(b).unwrap_or(Case::BoolLit { lit: "0".into() }), check);
    }
    // every keyword form with EVERY byte value substituted at / inserted before every position
    {
        let mut sweep: Vec<Case> = Vec::new();
        let forms: [&[u8]; 13] = [b"INF", b"INFINITY", b"NINF", b"NINFINITY", b"NAN", b"MAX", b"MAXIMUM", b"MIN", b"MINIMUM", b"ON", b"OFF", b"inf", b"on"];
        for form in forms {
            for pos in 0..=form.len() {
                for b in 0u16..256 {
                    for insert in [false, true] {
                        if !insert && pos == form.len() {
                            continue;
                        }
                        let mut t = form.to_vec();
                        if insert { t.insert(pos, b as u8) } else { t[pos] = b as u8 }
                        for target in 0u8..3 {
                            sweep.push(Case::WordBytes { target, bytes: t.clone() });
                        }
                    }
                }
            }
        }
        e.fixed("every-keyword-every-byte-substituted", sweep, check);
    }
    // bounded-exhaustive: EVERY letter string up to a length as a character datum for bool, f32, f64
    const LETTERS: &[u8] = b"ABCDEFGHIJKLMNOPQRSTUVWXYZ";
    let kw = crate::gen::enumstr::Partitioned { alpha: LETTERS, max_len: if cfg!(debug_assertions) { e.tier.pick(3usize, 4) } else { e.tier.pick(5usize, 6) }, prefix_len: 2 };
    let kwr = &kw;
    e.enumerate::<Case, _, _>(
        "every-letter-string-as-keyword",
        kw.parts() * 3,
        move |p, f| {
            let which = p / kwr.parts();
            kwr.run(p % kwr.parts(), &mut |s| {
                if s.is_empty() {
                    return true;
                }
                let word = String::from_utf8_lossy(s).into_owned();
                f(match which {
                    0 => Case::BoolWord { word },
                    1 => Case::FloatWord { single: true, word },
                    _ => Case::FloatWord { single: false, word },
                })
            })
        },
        check,
    );
    // the known-finding class KF2 is reported only here (alternative configuration only)
    if crate::engine::ALT_CONFIG || crate::engine::MIN_CONFIG {
        let lits32 = ["0.00000000000000000000010587911525134392149949309093804098412527903150248675956390798091888427734375"];
        let lits = ["109372556475.755500794", "109286876.920048169799559432", "113577763.83408979329", "1223372066.6119614839718839206", "155.67308178993812799467744528812e7", "106418908903974004098.e-12"];
        e.fixed("compact-long-literals", lits.iter().map(|l| Case::Float { single: false, lit: l.to_string(), halfway: false }).chain(lits32.iter().map(|l| Case::Float { single: true, lit: l.to_string(), halfway: true })).collect(), |c: &Case, obs: &Obs| match c {
            Case::Float { single, lit, halfway } => check_float_opt(*single, lit, *halfway, false, obs, c),
            _ => Ok(()),
        });
        e.count_excluded("KF2 (compact, float literal of >= 20 significant digits, one ulp off)", e.label_count("excluded: known finding KF2 (compact, >= 20 digits, one ulp)"));
    }
    // keyword chimeras as character data for bool, f32, f64
    let chim: Vec<Case> = crate::model::mnemonic::keyword_chimeras().into_iter().flat_map(|w| [Case::BoolWord { word: w.clone() }, Case::FloatWord { single: true, word: w.clone() }, Case::FloatWord { single: false, word: w }]).collect();
    e.fixed("keyword-chimeras", chim, check);
}
