//! C12 — the error/event queue is a bounded FIFO whose overflow is marked by -350.
use crate::engine::{CheckResult, Engine, Obs, PropertyMeta};
use crate::ensure;
use arrayvec::ArrayVec;
use proptest::prelude::*;
use scpi::error::{Error, ErrorCode, ErrorQueue};
use serde::{Deserialize, Serialize};
use std::collections::VecDeque;

pub fn meta() -> PropertyMeta {
    PropertyMeta {
        id: "C12",
        level: "exploration",
        rule: "operation sequences (0..60 steps of push(arbitrary standard/custom/extended error), pop, clear, length, is_empty) run in lock-step against a VecDeque model, on Vec<Error> (unbounded) and on ArrayVec<Error, N> for every N in 1..=8 and for 16, 17, 32 (with push-heavy sequences of up to 200 steps); return values and length compared after every step, full drain compared at the end. Added: EVERY sequence of up to 8 (9) operations over {push x, push y, push long-text, pop, clear} on the unbounded queue and capacities 1..4; device-dependent texts of 0..70000 bytes; an unbounded queue of 65534 .. 70000 items. Non-trivial: the sequence overflows, pops and overflows again, or interleaves at least three push/pop alternations.",
        assumptions: &["capacities 1..=8 stand for 'all capacities >= 1' (const-generic dispatch)"],
        run,
    }
}

#[derive(Clone, Copy, Debug, Serialize, Deserialize, Hash, PartialEq, Eq)]
pub enum Op {
    Push(u8),
    Pop,
    Clear,
    Len,
    IsEmpty,
}

#[derive(Clone, Debug, Serialize, Deserialize, Hash)]
pub struct Case {
    /// 0 = Vec<Error> (unbounded); n = ArrayVec<Error, n>
    pub cap: u8,
    pub ops: Vec<Op>,
}

/// Pool of errors pushed by the sequences: standard codes of every class,
/// custom codes, with and without extended text.
pub fn error_pool() -> Vec<Error> {
    static POOL: std::sync::OnceLock<Vec<Error>> = std::sync::OnceLock::new();
    POOL.get_or_init(build_pool).clone()
}

fn build_pool() -> Vec<Error> {
    let mut v: Vec<Error> = Vec::new();
    for c in [-100i16, -101, -109, -113, -151, -200, -222, -224, -225, -300, -310, -350, -363, -400, -410, -440, -500, -600, -700, -800, 0] {
        if let Some(e) = ErrorCode::get_error(c) {
            v.push(Error::new(e));
        }
    }
    v.push(Error::custom(1, b"One"));
    v.push(Error::custom(2, b"Two"));
    v.push(Error::custom(-399, b"Device specific"));
    v.push(Error::custom(32767, b"Max"));
    v.push(Error::custom(-32768, b"Min"));
    v.push(Error::custom(7, b"Seven").extended(b"with extended text"));
    v.push(Error::new(ErrorCode::DataOutOfRange).extended(b"too large"));
    v.push(Error::new(ErrorCode::QueueOverflow).extended(b"not the real overflow"));
    v.push(Error::custom(-350, b"custom overflow lookalike"));
    // long device-dependent texts (the queue stores whatever it is given, unchanged): around
    // the 255-character limit that SCPI-99 21.8.1 sets for description + info, and far beyond
    for (i, n) in [0usize, 1, 100, 200, 230, 239, 240, 241, 254, 255, 256, 257, 300, 1000, 70000].into_iter().enumerate() {
        let text: &'static [u8] = Box::leak((0..n).map(|k| b' ' + ((k * 7 + i) % 94) as u8).collect::<Vec<u8>>().into_boxed_slice());
        v.push(match i % 3 {
            0 => Error::new(ErrorCode::DeviceSpecificError).extended(text),
            1 => Error::custom(100 + i as i16, b"Custom").extended(text),
            _ => Error::custom(-(200 + i as i16), text),
        });
    }
    v
}

fn same(a: &Error, b: &Error) -> bool {
    a == b && a.get_code() == b.get_code() && a.get_message() == b.get_message() && a.get_extended() == b.get_extended()
}

fn run_ops<Q: ErrorQueue>(q: &mut Q, cap: Option<usize>, case: &Case, obs: &Obs) -> CheckResult {
    let pool = error_pool();
    let mut model: VecDeque<Error> = VecDeque::new();
    let overflow = Error::new(ErrorCode::QueueOverflow);
    let mut overflowed = false;
    let mut popped_after_overflow = false;
    let mut overflow_pop_overflow = false;
    let mut alternations = 0;
    let mut last_kind = 0u8;
    let mut cleared = false;
    for (i, op) in case.ops.iter().enumerate() {
        match *op {
            Op::Push(k) => {
                let e = pool[(k as usize * pool.len()) >> 8];
                if cap.map_or(true, |c| model.len() < c) {
                    model.push_back(e);
                } else {
                    // full: the new error is dropped, the newest retained slot reads -350
                    *model.back_mut().unwrap() = overflow;
                    if popped_after_overflow {
                        overflow_pop_overflow = true;
                    }
                    overflowed = true;
                }
                q.push_back_error(e);
                if last_kind == 2 {
                    alternations += 1;
                }
                last_kind = 1;
            }
            Op::Pop => {
                let want = model.pop_front();
                let got = q.pop_front_error();
                let ok = match (&want, &got) {
                    (None, None) => true,
                    (Some(a), Some(b)) => same(a, b),
                    _ => false,
                };
                ensure!(ok, "fifo-order", "step {i}: pop returned {got:?}, FIFO model says {want:?}");
                if overflowed && want.is_some() {
                    popped_after_overflow = true;
                }
                if last_kind == 1 {
                    alternations += 1;
                }
                last_kind = 2;
            }
            Op::Clear => {
                model.clear();
                q.clear_errors();
                cleared = true;
            }
            Op::Len => {}
            Op::IsEmpty => {}
        }
        ensure!(q.num_errors() == model.len(), "length", "step {i} ({op:?}): num_errors() = {}, model holds {}", q.num_errors(), model.len());
        ensure!(q.is_empty() == model.is_empty(), "length", "step {i} ({op:?}): is_empty() = {}, model holds {}", q.is_empty(), model.len());
        if let Some(c) = cap {
            ensure!(q.num_errors() <= c, "capacity", "step {i}: queue holds {} > capacity {c}", q.num_errors());
        }
    }
    // final drain
    let mut k = 0;
    loop {
        let want = model.pop_front();
        let got = q.pop_front_error();
        match (&want, &got) {
            (None, None) => break,
            (Some(a), Some(b)) if same(a, b) => {}
            _ => {
                return Err(crate::engine::Failure::new(
                    "fifo-order",
                    format!("final drain item {k}: got {got:?}, model says {want:?}"),
                ))
            }
        }
        k += 1;
    }
    obs.label_if(cleared, "has clear");
    obs.label_if(overflowed, "overflow");
    obs.label_if(overflow_pop_overflow, "overflow-pop-overflow");
    obs.nontrivial_if(overflow_pop_overflow || alternations >= 3, case);
    Ok(())
}

pub fn check(case: &Case, obs: &Obs) -> CheckResult {
    macro_rules! arr {
        ($($n:literal),*) => {
            match case.cap {
                #[cfg(feature = "full")]
                0 => {
                    obs.label("Vec<Error>");
                    let mut q: Vec<Error> = Vec::new();
                    run_ops(&mut q, None, case, obs)
                }
                // the minimal configuration has no growable queue (scpi without alloc): the same operations on a
                // fixed queue larger than any generated history
                #[cfg(not(feature = "full"))]
                0 => {
                    obs.label("ArrayVec<Error,4096> (no growable queue in this configuration)");
                    if case.ops.len() > 4000 {
                        return Ok(());
                    }
                    let mut q: Box<ArrayVec<Error, 4096>> = Box::new(ArrayVec::new());
                    run_ops(&mut *q, Some(4096), case, obs)
                }
                $($n => {
                    obs.label(concat!("ArrayVec<Error,", $n, ">"));
                    let mut q: ArrayVec<Error, $n> = ArrayVec::new();
                    run_ops(&mut q, Some($n), case, obs)
                })*
                _ => Ok(()),
            }
        };
    }
    arr!(1, 2, 3, 4, 5, 6, 7, 8, 16, 17, 32)
}

fn op_strategy() -> impl Strategy<Value = Op> {
    prop_oneof![
        6 => any::<u8>().prop_map(Op::Push),
        4 => Just(Op::Pop),
        1 => Just(Op::Clear),
        1 => Just(Op::Len),
        1 => Just(Op::IsEmpty),
    ]
}

fn case_strategy() -> impl Strategy<Value = Case> {
    (
        prop_oneof![9 => (0u8..=8).boxed(), 1 => prop_oneof![Just(16u8), Just(17u8), Just(32u8), Just(0u8)].boxed()],
        prop_oneof![9 => proptest::collection::vec(op_strategy(), 0..60), 1 => proptest::collection::vec(prop_oneof![8 => any::<u8>().prop_map(Op::Push), 2 => Just(Op::Pop), 1 => Just(Op::Len)], 60..200), 1 => proptest::collection::vec(prop_oneof![12 => any::<u8>().prop_map(Op::Push), 1 => Just(Op::Pop)], 250..700)],
    )
        .prop_map(|(cap, ops)| Case { cap, ops })
}

fn run(e: &Engine) {
    e.proptest("queue-histories", e.tier.pick(200_000, 10_000_000), case_strategy, check);
    e.require_fraction("overflow-pop-overflow", "overflow", 0.2);
    // bounded-exhaustive: EVERY sequence of up to 8 (9) operations over {push x, push y, push long-text, pop, clear}
    // on the unbounded queue and on capacities 1..=4
    let max_ops = if cfg!(debug_assertions) { 6u32 } else { e.tier.pick(8u32, 9) };
    e.enumerate::<Case, _, _>(
        "every-short-operation-sequence",
        5 * max_ops as u64,
        move |part, f| {
            let cap = (part % 5) as u8;
            let len = (part / 5) as u32 + 1;
            for code in 0..5u32.pow(len) {
                let mut c = code;
                let ops: Vec<Op> = (0..len)
                    .map(|_| {
                        let o = c % 5;
                        c /= 5;
                        match o {
                            0 => Op::Push(3),
                            1 => Op::Push(140),
                            2 => Op::Push(250),
                            3 => Op::Pop,
                            _ => Op::Clear,
                        }
                    })
                    .collect();
                if !f(Case { cap, ops }) {
                    return;
                }
            }
        },
        check,
    );
    // queues of 2^16 +- a few items on the unbounded queue (16-bit counts)
    if !cfg!(debug_assertions) {
        let mut ops: Vec<Op> = (0..65_534u32).map(|i| Op::Push((i % 251) as u8)).collect();
        ops.extend([Op::Len, Op::Push(1), Op::Len, Op::Push(2), Op::Len, Op::Push(3), Op::Pop, Op::Pop, Op::Len]);
        ops.extend((0..4_500u32).map(|i| Op::Push((i % 13) as u8)));
        ops.extend((0..100).map(|_| Op::Pop));
        ops.extend([Op::Len, Op::Clear, Op::Push(9), Op::Pop, Op::Pop]);
        e.fixed("queue-beyond-65535-items", vec![Case { cap: 0, ops }], check);
    }
}
