//! C11 — fixed-capacity, allocation-free operation: overflow is an error, never a panic.
use crate::alloc_count;
use crate::bytes::{escape, B};
use crate::cap::{dispatch, CapVisitor, MAX_CAP};
use crate::conv::Target;
use crate::engine::{CheckResult, Engine, Obs, PropertyMeta};
use crate::fixtree::{fixed_header, FIXTREE, NATREE};
use crate::gen::msg::*;
use crate::gen::plan::{err_spec, response};
use crate::na::NaDev;
use crate::rec::{LogDev, Pull, PullAs, UnitPlan};
use crate::{ensure, fail};
#[allow(unused_imports)]
use crate::engine::Failure;
use arrayvec::ArrayVec;
use proptest::prelude::*;
use scpi::error::Error;
use scpi::Context;
use serde::{Deserialize, Serialize};

pub fn meta() -> PropertyMeta {
    PropertyMeta {
        id: "C11",
        level: "fault_enumeration",
        rule: "generated messages (1..5 units, commands and queries with 1..5 response data incl. blocks and multi-digit numbers, typed parameter pulls of every conversion, occasionally an injected handler error) are executed with a growable Vec<u8> buffer and with ArrayVec<u8, CAP> for EVERY capacity from 0 to the response length + 2 (max 192): if the response fits the bytes must be identical, otherwise the result must be -225 with at most CAP bytes written, never a panic; a failing message must fail identically. Separately the message is executed with allocation-free handlers and device under a counting global allocator: zero allocation calls are allowed between entering and leaving Node::run. Added (fixed cases at every capacity): 2^16 +- 1 data elements in one response unit, blocks of 10^k +- 1 bytes up to 10^7, lists handed over as one datum (ArrayVec of character data, empty items included); query handlers that call finish() an extra time and ignore its result; the mandated 488.2 / SCPI queries (22 messages x 4 preludes that fill the error queue) on both minimal SCPI devices (one with identification fields longer than 72 characters) at EVERY capacity, allocation-counted. Non-trivial: a (message, capacity) pair with 0 < CAP < response length; evaluations count every execution.",
        assumptions: &["capacities up to 192 bytes", "the allocation claim covers the explored messages, conversions and response kinds; handlers and device used for it are allocation-free by construction (fixed arrays)"],
        run,
    }
}

#[derive(Clone, Debug, Serialize, Deserialize, Hash)]
pub struct Case {
    pub msg: Msg,
    pub plans: Vec<UnitPlan>,
}

struct CapRun<'a> {
    bytes: &'a [u8],
    plans: &'a [UnitPlan],
}

struct CapOut {
    result: Result<(), Error>,
    buf: Vec<u8>,
    calls: usize,
    errors: Vec<Error>,
}

impl<'a> CapVisitor for CapRun<'a> {
    type Out = CapOut;
    fn visit<const N: usize>(&mut self) -> CapOut {
        let mut dev = LogDev::with_plan(self.plans.to_vec());
        let mut ctx = Context::default();
        let mut resp: ArrayVec<u8, N> = ArrayVec::new();
        let result = FIXTREE.run(self.bytes, &mut dev, &mut ctx, &mut resp);
        CapOut { result, buf: resp.to_vec(), calls: dev.calls.len(), errors: dev.errors }
    }
}

/// The same message twice into the SAME buffer without clearing it in between
/// (a device that accumulates responses, or does not clear after a failure).
struct TwiceRun<'a> {
    bytes: &'a [u8],
    plans: &'a [UnitPlan],
}

impl<'a> CapVisitor for TwiceRun<'a> {
    type Out = (Result<(), Error>, Result<(), Error>, Vec<u8>);
    fn visit<const N: usize>(&mut self) -> Self::Out {
        let mut resp: ArrayVec<u8, N> = ArrayVec::new();
        let mut run = |resp: &mut ArrayVec<u8, N>| {
            let mut dev = LogDev::with_plan(self.plans.to_vec());
            let mut ctx = Context::default();
            FIXTREE.run(self.bytes, &mut dev, &mut ctx, resp)
        };
        let a = run(&mut resp);
        let b = run(&mut resp);
        (a, b, resp.to_vec())
    }
}

struct NaRun<'a> {
    bytes: &'a [u8],
    plans: &'static [UnitPlan],
}

impl<'a> CapVisitor for NaRun<'a> {
    /// (allocation calls during run, result code, response length, digest)
    type Out = (u64, i16, usize, u64);
    fn visit<const N: usize>(&mut self) -> Self::Out {
        let mut dev = NaDev::new(self.plans);
        let mut ctx = Context::default();
        let mut resp: ArrayVec<u8, N> = ArrayVec::new();
        let before = alloc_count::count();
        let result = NATREE.run(self.bytes, &mut dev, &mut ctx, &mut resp);
        let after = alloc_count::count();
        (after - before, result.map_or_else(|e| e.get_code(), |_| 0), resp.len(), dev.digest)
    }
}

pub fn check(case: &Case, obs: &Obs) -> CheckResult {
    let r = case.msg.render();
    let txt = escape(&r.bytes);
    let mut runs = 0u64;
    // reference: growable buffer
    let mut dev = LogDev::with_plan(case.plans.clone());
    let mut ctx = Context::default();
    let mut vec_resp: Vec<u8> = Vec::new();
    let vec_result = FIXTREE.run(&r.bytes, &mut dev, &mut ctx, &mut vec_resp);
    let vec_calls = dev.calls.len();
    let l = vec_resp.len();
    obs.label(if vec_result.is_ok() { "message succeeds" } else { "message fails" });
    match &vec_result {
        Ok(()) => {
            let top = (l + 2).min(MAX_CAP);
            obs.nontrivial_if(l >= 2, case);
            for cap in 0..=top {
                let Some(o) = dispatch(cap, &mut CapRun { bytes: &r.bytes, plans: &case.plans }) else { break };
                runs += 1;
                ensure!(o.buf.len() <= cap, "capacity-exceeded", "{txt:?}: capacity {cap}, buffer holds {}", o.buf.len());
                if cap >= l {
                    obs.label("capacity sufficient");
                    match &o.result {
                        Ok(()) => ensure!(o.buf == vec_resp, "bytes-differ", "{txt:?}: capacity {cap}: {:?}, growable buffer gives {:?}", escape(&o.buf), escape(&vec_resp)),
                        Err(e) => fail!("spurious-overflow", "{txt:?}: capacity {cap} >= response length {l} but the run fails with {}", e.get_code()),
                    }
                    ensure!(o.errors.is_empty() && o.calls == vec_calls, "hook-on-success", "{txt:?}: capacity {cap}: hook calls {}, handlers {}", o.errors.len(), o.calls);
                } else {
                    obs.label("capacity too small");
                    match &o.result {
                        Ok(()) => fail!("overflow-swallowed", "{txt:?}: capacity {cap} < response length {l} but the run succeeds with {:?}", escape(&o.buf)),
                        Err(e) => ensure!(e.get_code() == -225, "overflow-code", "{txt:?}: capacity {cap} < {l}: fails with {}, expected -225 Out of memory", e.get_code()),
                    }
                    ensure!(o.errors.len() == 1 && o.errors[0].get_code() == -225, "hook-count", "{txt:?}: capacity {cap}: error hook saw {:?}", o.errors);
                    ensure!(o.calls <= vec_calls, "call-order", "{txt:?}: capacity {cap}: {} handlers ran, the full message has {vec_calls}", o.calls);
                    // what was written is a prefix of the full response
                    ensure!(vec_resp.starts_with(&o.buf), "bytes-differ", "{txt:?}: capacity {cap}: partial output {:?} is not a prefix of {:?}", escape(&o.buf), escape(&vec_resp));
                }
            }
        }
        Err(e) => {
            // a failing message fails identically with a large fixed buffer
            let Some(o) = dispatch(MAX_CAP, &mut CapRun { bytes: &r.bytes, plans: &case.plans }) else { unreachable!() };
            runs += 1;
            if l + 1 < MAX_CAP {
                ensure!(o.result == Err(*e), "failure-differs", "{txt:?}: growable buffer fails with {e:?}, ArrayVec<{MAX_CAP}> gives {:?}", o.result);
                ensure!(o.buf == vec_resp, "bytes-differ", "{txt:?}: partial output differs on failure");
            }
        }
    }
    // the buffer re-used without clearing: whatever the growable buffer does with the second run, the
    // fixed one does the same or reports -225 (differential only; no claim about appending as such)
    if vec_result.is_ok() && l > 0 {
        let mut vec2: Vec<u8> = Vec::new();
        let mut both = |buf: &mut Vec<u8>| {
            let mut dev = LogDev::with_plan(case.plans.clone());
            let mut ctx = Context::default();
            FIXTREE.run(&r.bytes, &mut dev, &mut ctx, buf)
        };
        let va = both(&mut vec2);
        let vb = both(&mut vec2);
        for cap in [vec2.len().min(MAX_CAP), (vec2.len() + 3).min(MAX_CAP), l.min(MAX_CAP), (l + 1).min(MAX_CAP)] {
            let Some((a, b, buf)) = dispatch(cap, &mut TwiceRun { bytes: &r.bytes, plans: &case.plans }) else { continue };
            runs += 2;
            obs.label("buffer re-used without clearing");
            if cap >= vec2.len() {
                ensure!(a == va && b == vb && buf == vec2, "reuse-differs", "{txt:?}: run twice into one buffer of capacity {cap}: {:?} / {:?} / {:?}, the growable buffer gives {:?} / {:?} / {:?}", a.map_err(|e| e.get_code()), b.map_err(|e| e.get_code()), escape(&buf), va.map_err(|e| e.get_code()), vb.map_err(|e| e.get_code()), escape(&vec2));
            } else if cap >= l {
                ensure!(a == va, "reuse-differs", "{txt:?}: first of two runs into capacity {cap} gives {:?}", a.map_err(|e| e.get_code()));
                ensure!(b.map_err(|e| e.get_code()) == Err(-225) && vec2.starts_with(&buf), "reuse-overflow", "{txt:?}: second run into a buffer of capacity {cap} already holding {l} bytes: {:?} with {:?}; the growable buffer ends with {:?}", b.map_err(|e| e.get_code()), escape(&buf), escape(&vec2));
            }
        }
    }
    // allocation count with allocation-free handlers
    for p in &case.plans {
        for d in &p.respond {
            if let crate::rec::RespDatum::BigBlock(n) = d {
                let _ = crate::rec::big_block(*n); // built (and allocated) once, outside the counted runs
            }
        }
    }
    let leaked: &'static [UnitPlan] = Box::leak(case.plans.clone().into_boxed_slice());
    let caps = [MAX_CAP, l.min(MAX_CAP), l.saturating_sub(1).min(MAX_CAP), 0];
    let mut alloc_failure = None;
    for cap in caps {
        let (allocs, code, _len, _digest) = dispatch(cap, &mut NaRun { bytes: &r.bytes, plans: leaked }).unwrap();
        runs += 1;
        obs.label("allocation-counted run");
        if allocs != 0 {
            alloc_failure = Some((cap, allocs, code));
            break;
        }
    }
    // SAFETY: `leaked` came from Box::leak above and no reference to it survives the runs
    unsafe { drop(Box::from_raw(leaked as *const [UnitPlan] as *mut [UnitPlan])) };
    if let Some((cap, allocs, code)) = alloc_failure {
        fail!("heap-allocation", "{txt:?}: {allocs} heap allocation call(s) during Node::run with ArrayVec<u8, {cap}> (result {code})");
    }
    obs.executions(runs);
    Ok(())
}

/// Typed pulls that mostly succeed on the unit's data.
fn typed_pulls(data: &[Datum]) -> BoxedStrategy<Vec<Pull>> {
    let per: Vec<BoxedStrategy<PullAs>> = data
        .iter()
        .map(|d| -> BoxedStrategy<PullAs> {
            match d {
                Datum::Chr(_) => prop_oneof![Just(PullAs::To(Target::Chr)), Just(PullAs::Enum), Just(PullAs::NumericF32), Just(PullAs::To(Target::Bool)), Just(PullAs::Auto), Just(PullAs::Raw)].boxed(),
                Datum::Dec { suffix: None, .. } => prop_oneof![
                    Just(PullAs::To(Target::F64)),
                    Just(PullAs::To(Target::F32)),
                    Just(PullAs::DataF64),
                    Just(PullAs::To(Target::Int(crate::conv::IntTy::I64))),
                    Just(PullAs::To(Target::Int(crate::conv::IntTy::U8))),
                    Just(PullAs::NumericF32),
                    Just(PullAs::NumericU8),
                    Just(PullAs::Volt),
                    Just(PullAs::DbPower),
                    Just(PullAs::To(Target::Bool)),
                ]
                .boxed(),
                Datum::Dec { .. } => prop_oneof![Just(PullAs::Volt), Just(PullAs::Seconds), Just(PullAs::AmplitudeVolt), Just(PullAs::DbPower), Just(PullAs::To(Target::F64))].boxed(),
                Datum::NonDec { .. } => prop_oneof![Just(PullAs::To(Target::Int(crate::conv::IntTy::U64))), Just(PullAs::To(Target::Int(crate::conv::IntTy::I16))), Just(PullAs::Raw)].boxed(),
                Datum::Str { .. } => prop_oneof![Just(PullAs::To(Target::Bytes)), Just(PullAs::To(Target::Str)), Just(PullAs::DataBytes)].boxed(),
                Datum::Block { .. } => prop_oneof![Just(PullAs::To(Target::Arb)), Just(PullAs::To(Target::Str))].boxed(),
                Datum::Expr(_) => prop_oneof![Just(PullAs::To(Target::Expr)), Just(PullAs::IterNumList), Just(PullAs::IterChanList)].boxed(),
            }
        })
        .collect();
    per.prop_map(|v| v.into_iter().map(|as_| Pull { optional: false, as_ }).collect()).boxed()
}

fn case_strategy() -> impl Strategy<Value = Case> {
    crate::fixtree::fixed_message(prop_oneof![3 => Just(true), 1 => Just(false)].boxed(), 5, 3, true, true).prop_flat_map(|msg| {
        let per_unit: Vec<BoxedStrategy<UnitPlan>> = msg
            .units
            .iter()
            .map(|u| {
                (typed_pulls(&u.data), response(), prop_oneof![30 => Just(None), 1 => err_spec().prop_map(Some)], any::<bool>(), crate::gen::plan::mid_finish())
                    .prop_map(|(pulls, (headers, respond), fail, use_typed, mid_finish)| UnitPlan { pulls: if use_typed { pulls } else { vec![] }, greedy: true, headers, respond, fail, swallow: false, mid_finish })
                    .boxed()
            })
            .collect();
        (Just(msg), per_unit).prop_map(|(msg, plans)| Case { msg, plans })
    })
}

/// The mandated commands on the minimal device with a fixed-capacity queue and a
/// fixed-capacity response buffer must not allocate either.
fn check_contrib(h: &crate::props::status_common::History, obs: &Obs) -> CheckResult {
    use crate::dev488::{MinDev, MIN_TREE};
    use crate::props::status_common::render_step;
    let mut dev = MinDev::new(true);
    let mut runs = 0;
    for (si, step) in h.steps.iter().enumerate() {
        dev.tst = step.tst;
        let bytes = render_step(step);
        let mut ctx = Context::default();
        ctx.mav = step.mav;
        let mut resp: ArrayVec<u8, 96> = ArrayVec::new();
        let before = alloc_count::count();
        let tree = if h.steps.len() % 2 == 1 { &crate::dev488::MIN_TREE_ALT } else { &MIN_TREE };
        let res = tree.run(&bytes, &mut dev, &mut ctx, &mut resp);
        let after = alloc_count::count();
        runs += 1;
        ensure!(after == before, "heap-allocation", "step {si} {:?}: {} heap allocation call(s) during Node::run on the minimal SCPI device (result {:?})", escape(&bytes), after - before, res.map_err(|e| e.get_code()));
    }
    obs.label("contrib history");
    obs.nontrivial_if(h.steps.len() >= 2, h);
    obs.executions(runs);
    Ok(())
}

/// A query message of the mandated commands (after a prelude that fills the error queue),
/// on one of the two minimal SCPI devices, through EVERY buffer capacity.
#[derive(Clone, Debug, Hash, Serialize, Deserialize)]
pub struct ContribCap {
    alt_tree: bool,
    prelude: Vec<B>,
    query: B,
}

struct ContribRun<'a> {
    case: &'a ContribCap,
}

fn contrib_setup(case: &ContribCap) -> crate::dev488::MinDev {
    let tree = if case.alt_tree { &crate::dev488::MIN_TREE_ALT } else { &crate::dev488::MIN_TREE };
    let mut dev = crate::dev488::MinDev::new(true);
    for p in &case.prelude {
        let mut sink: Vec<u8> = Vec::new();
        let _ = tree.run(p, &mut dev, &mut Context::default(), &mut sink);
    }
    dev
}

impl<'a> CapVisitor for ContribRun<'a> {
    type Out = (Result<(), Error>, Vec<u8>, u64);
    fn visit<const N: usize>(&mut self) -> Self::Out {
        let tree = if self.case.alt_tree { &crate::dev488::MIN_TREE_ALT } else { &crate::dev488::MIN_TREE };
        let mut dev = contrib_setup(self.case);
        let mut resp: ArrayVec<u8, N> = ArrayVec::new();
        let before = alloc_count::count();
        let r = tree.run(&self.case.query, &mut dev, &mut Context::default(), &mut resp);
        let after = alloc_count::count();
        (r, resp.to_vec(), after - before)
    }
}

fn check_contrib_cap(case: &ContribCap, obs: &Obs) -> CheckResult {
    let tree = if case.alt_tree { &crate::dev488::MIN_TREE_ALT } else { &crate::dev488::MIN_TREE };
    let mut dev = contrib_setup(case);
    let mut full: Vec<u8> = Vec::new();
    let reference = tree.run(&case.query, &mut dev, &mut Context::default(), &mut full);
    let txt = escape(&case.query);
    let mut runs = 1;
    if reference.is_ok() {
        for cap in 0..=(full.len() + 2).min(MAX_CAP) {
            let Some((r, buf, allocs)) = dispatch(cap, &mut ContribRun { case }) else { break };
            runs += 1;
            ensure!(buf.len() <= cap, "capacity-exceeded", "{txt:?} on the minimal SCPI device: capacity {cap} but buffer holds {}", buf.len());
            ensure!(allocs == 0, "heap-allocation", "{txt:?} on the minimal SCPI device, capacity {cap}: {allocs} heap allocation call(s) during Node::run");
            if cap >= full.len() {
                ensure!(r.is_ok() && buf == full, "fits-but-differs", "{txt:?} on the minimal SCPI device, capacity {cap} >= {}: result {:?}, buffer {:?}; growable buffer gives {:?}", full.len(), r.map_err(|e| e.get_code()), escape(&buf), escape(&full));
            } else {
                ensure!(r.map_err(|e| e.get_code()) == Err(-225), "overflow-not-225", "{txt:?} on the minimal SCPI device, capacity {cap} < {}: result {:?}, expected -225", full.len(), r.map_err(|e| e.get_code()));
            }
        }
    }
    obs.label("contrib capacity sweep");
    obs.nontrivial_if(reference.is_ok() && full.len() >= 2, case);
    obs.executions(runs);
    Ok(())
}

fn contrib_cap_cases() -> Vec<ContribCap> {
    let preludes: [&[&str]; 4] = [&[], &["*XYZ"], &["*XYZ", "TEST:FAIL", "*ESE 1 2", "STAT:NOPE?"], &["*ESE 255;*SRE 255;STAT:OPER:ENAB 32767;*OPC"]];
    let queries = [
        "*IDN?", "*ESR?", "*STB?", "*ESE?", "*SRE?", "*OPC?", "*TST?", "SYST:ERR?", "SYST:ERR:NEXT?", "SYST:ERR:ALL?", "SYST:ERR:COUN?", "SYST:VERS?", "STAT:OPER?", "STAT:OPER:COND?",
        "STAT:OPER:ENAB?", "STAT:QUES:ENAB?", "STAT:QUES:NTR?", "STAT:OPER:PTR?", "*IDN?;*IDN?", "*ESR?;*IDN?;SYST:ERR?", "SYST:ERR:ALL?;*IDN?;*STB?", "*IDN?;SYST:ERR:ALL?;:STAT:OPER:PTR?;*OPC?",
    ];
    let mut v = Vec::new();
    for alt_tree in [false, true] {
        for p in preludes {
            for q in queries {
                v.push(ContribCap { alt_tree, prelude: p.iter().map(|s| B::from(*s)).collect(), query: B::from(q) });
            }
        }
    }
    v
}

fn run(e: &Engine) {
    e.fixed("mandated-queries-every-capacity", contrib_cap_cases(), check_contrib_cap);

    if !cfg!(debug_assertions) {
        let cases: Vec<Case> = crate::fixtree::size_boundary_plans().into_iter().map(|plans| Case { msg: crate::fixtree::query_message(1), plans }).collect();
        e.fixed("size-boundary-responses", cases, check);
    }
    e.proptest("mandated-commands-allocation", e.tier.pick(20_000, 400_000), || crate::props::status_common::history([6, 4, 4, 2, 2], 12, 0), check_contrib);
    e.proptest("every-capacity-and-allocation", e.tier.pick(40_000, 1_000_000), case_strategy, check);
    e.require_fraction("message succeeds", "allocation-counted run", 0.1);
    for l in ["capacity too small", "capacity sufficient", "message fails"] {
        if !e.replay_only && !e.failed() && e.label_count(l) < 200 {
            e.harness_error(format!("generator unhealthy: only {} labelled {l:?}", e.label_count(l)));
        }
    }
}
