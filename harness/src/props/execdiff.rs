//! Whole-message differential from arbitrary bytes (used by C05 and C02).
//!
//! The by-construction checks know what a message means because they built it.
//! This oracle starts from bytes instead: the independent 488.2 recogniser
//! (`model::lex488`) decomposes the input, the reference path resolver
//! (`model::path`) designates the leaf of every unit, and the expectation is
//! assembled from those two models only:
//!
//!  * recogniser says well-formed: units run left to right until the first
//!    header that designates no node (-113, no handler for that unit, none
//!    later); every handler is offered exactly the unit's data; on success the
//!    hook stays silent and the response is the `;`-joined query output + NL;
//!  * recogniser says "violation listed in C04 after this element prefix":
//!    every unit that is complete in the prefix has run as above, the unit in
//!    progress may or may not have been entered (when entered it is the
//!    designated leaf and it saw a prefix of its data), nothing later ran, the
//!    result is a command error and the hook saw exactly it, once;
//!  * recogniser or resolver make no claim: nothing is judged beyond the
//!    judged prefix.
use crate::bytes::{escape, B};
use crate::engine::{CheckResult, Obs};
use crate::gen::msg::{ETok, Header};
use crate::gen::tree::{realize, TNode, Tree};
use crate::model::lex488::{recognise, Verdict};
use crate::model::path::{Res, Resolver};
use crate::rec::{LogDev, RespDatum, UnitPlan};
use crate::{ensure, fail};
use scpi::tree::Node;
use scpi::Context;
use serde::{Deserialize, Serialize};

#[derive(Clone, Debug, Serialize, Deserialize, Hash)]
pub enum Case {
    /// bytes on `fixtree::FIXTREE`
    Fix { bytes: B },
    /// bytes on the class-alphabet tree of C01 (anonymous default leaf, default branch, suffix siblings)
    Class { bytes: B },
    /// bytes on `fixtree::FIXTREE` with handlers that pull exactly `pulls` required elements (C06)
    FixArity { bytes: B, pulls: u8 },
    /// bytes on a generated tree
    Gen { tree: Tree, bytes: B },
    /// bytes on a tree built with the crate's `Root!` / `Branch!` / `Leaf!` macros and `Node::*` constructor functions
    Macro { bytes: B },
    /// `head ++ item x n ++ tail` on the fixed tree: messages of 2^16 +- 1 units or data elements
    Repeat { head: B, item: B, n: u32, tail: B },
    /// bytes on tree `idx` of the pool generated from `seed` (bounded-exhaustive token strings)
    Pool { seed: u64, idx: u32, bytes: B },
}

type ExpCall = (usize, bool, Vec<ETok>);

#[derive(Debug, PartialEq)]
enum Want {
    Success,
    Exactly(i16),
    /// the last expected call is entered and fails with this code
    Arity(i16),
    CommandError,
    /// the models stop claiming after the judged prefix
    NoClaim,
}

#[derive(Debug)]
struct Expect {
    calls: Vec<ExpCall>,
    partial: Option<ExpCall>,
    want: Want,
    units: usize,
}

fn leaf(name: &str, default: bool, id: usize) -> TNode {
    TNode::Leaf { name: name.into(), default, id }
}
fn branch(name: &str, default: bool, children: Vec<TNode>) -> TNode {
    TNode::Branch { name: name.into(), default, children }
}

/// Model of `fixtree::FIXTREE`.
pub fn fixtree_model() -> Tree {
    Tree {
        root: vec![
            leaf("*X", false, 0),
            leaf("*ABCDEFGHIJKL", false, 1),
            leaf("A", false, 2),
            branch("B", false, vec![leaf("", true, 3), branch("C", false, vec![leaf("DEFault", true, 4), leaf("D", false, 5)]), leaf("E", false, 6)]),
            leaf("ABCDEFGHIJKL", false, 7),
            leaf("OUTPut1", false, 8),
            leaf("OUTPut2", false, 9),
        ],
        leaves: 10,
    }
}

/// Model of `c01::CLASS_TREE`.
pub fn classtree_model() -> Tree {
    Tree {
        root: vec![
            leaf("*B", false, 0),
            leaf("*EB1", false, 1),
            leaf("B", false, 2),
            branch("E", false, vec![leaf("", true, 3), leaf("B", false, 4), branch("EB10", true, vec![leaf("BE", true, 5), leaf("E1", false, 6)])]),
            leaf("BB1", false, 7),
            leaf("BB10", false, 8),
        ],
        leaves: 9,
    }
}

use crate::rec::Rec;
use scpi::{Branch, Leaf, Root};

/// The same kind of tree as the others, but written the way the crate's
/// documentation does: macros (all their forms) and constructor functions.
pub const MACRO_TREE: Node<'static, LogDev> = Root![
    Leaf!(b"*MC" => &Rec { id: 0 }),
    Branch!(b"SENSe" => &Rec { id: 1 };
        Leaf!(b"VOLTage" => &Rec { id: 2 }),
        Branch!(default b"CURRent";
            Leaf!(default b"DC" => &Rec { id: 3 }),
            Leaf!(b"AC" => &Rec { id: 4 })
        )
    ),
    Node::branch(b"FUNC", &[Node::default_leaf(b"ON", &Rec { id: 5 }), Node::leaf(b"OFF2", &Rec { id: 6 })]),
    Node::default_branch(b"OPT", &[Node::leaf(b"X1", &Rec { id: 7 })])
];

pub fn macrotree_model() -> Tree {
    Tree {
        root: vec![
            leaf("*MC", false, 0),
            branch("SENSe", false, vec![leaf("", true, 1), leaf("VOLTage", false, 2), branch("CURRent", true, vec![leaf("DC", true, 3), leaf("AC", false, 4)])]),
            branch("FUNC", false, vec![leaf("ON", true, 5), leaf("OFF2", false, 6)]),
            branch("OPT", true, vec![leaf("X1", false, 7)]),
        ],
        leaves: 8,
    }
}

pub const MACRO_TOKENS: &[&[u8]] = &[b"SENS", b"VOLT", b"CURR", b"DC", b"AC", b"FUNC", b"ON", b"OFF2", b"OPT", b"X", b"*MC", b":", b";", b"?"];

/// header tokens -> Header, rest = data tokens (None: not a complete header)
fn parse_unit(toks: &[ETok]) -> Option<(Header, Vec<ETok>)> {
    let mut i = 0;
    let mut colon = false;
    if toks.first() == Some(&ETok::Colon) {
        colon = true;
        i = 1;
    }
    let mut path: Vec<B> = Vec::new();
    loop {
        match toks.get(i) {
            Some(ETok::Mnemonic(m)) => {
                path.push(m.clone());
                i += 1;
            }
            _ => return None,
        }
        if toks.get(i) == Some(&ETok::Colon) {
            i += 1;
        } else {
            break;
        }
    }
    let mut query = false;
    if toks.get(i) == Some(&ETok::Query) {
        query = true;
        i += 1;
    }
    if toks.get(i) == Some(&ETok::HeaderSep) {
        i += 1;
    }
    let mut data = Vec::new();
    let mut want_data = true;
    for t in &toks[i..] {
        if want_data {
            if !t.is_data() {
                return None;
            }
            data.push(t.clone());
            want_data = false;
        } else {
            if *t != ETok::DataSep {
                return None;
            }
            want_data = true;
        }
    }
    let common = path[0].first() == Some(&b'*');
    if common {
        if colon || path.len() != 1 {
            return None;
        }
        path[0] = B(path[0][1..].to_vec());
    }
    Some((Header { common, colon, path, query }, data))
}

fn expectation(model: &Tree, bytes: &[u8]) -> Option<Expect> {
    let (tokens, listed) = match recognise(bytes) {
        Verdict::WellFormed(t) => (t, false),
        Verdict::Listed { prefix, .. } => (prefix, true),
        Verdict::Unknown => return None,
    };
    let mut slices: Vec<&[ETok]> = tokens.split(|t| *t == ETok::UnitSep).collect();
    let in_progress: Option<&[ETok]> = if listed {
        slices.pop()
    } else {
        // a trailing ';' leaves an empty last slice
        if slices.last().map_or(false, |s| s.is_empty()) {
            slices.pop();
        }
        None
    };
    let mut res = Resolver::new(model);
    let mut exp = Expect { calls: Vec::new(), partial: None, want: Want::Success, units: slices.len() + in_progress.map_or(0, |s| !s.is_empty() as usize) };
    for (k, s) in slices.iter().enumerate() {
        // a complete unit of a recognised message always has a complete header
        let (h, data) = parse_unit(s)?;
        match res.unit(k == 0, &h) {
            Res::Leaf(id) => exp.calls.push((id, h.query, data)),
            Res::Undefined => {
                exp.want = Want::Exactly(-113);
                return Some(exp);
            }
            Res::Unjudged => {
                exp.want = Want::NoClaim;
                return Some(exp);
            }
        }
    }
    if let Some(s) = in_progress {
        exp.want = Want::CommandError;
        // the unit in progress: its data tokens may end with a dangling separator
        let mut s = s.to_vec();
        if s.last() == Some(&ETok::DataSep) {
            s.pop();
        }
        if let Some((h, data)) = parse_unit(&s) {
            match res.unit(slices.is_empty(), &h) {
                Res::Leaf(id) => exp.partial = Some((id, h.query, data)),
                Res::Undefined => {}
                Res::Unjudged => exp.want = Want::NoClaim,
            }
        }
    }
    Some(exp)
}

const N_PLANS: usize = 48;

fn plans(arity: Option<usize>, swallow: bool) -> Vec<UnitPlan> {
    (0..N_PLANS)
        .map(|k| match arity {
            None => UnitPlan { greedy: true, swallow, respond: vec![RespDatum::I32(k as i32)], ..Default::default() },
            Some(m) => UnitPlan { greedy: false, pulls: (0..m).map(|_| crate::rec::Pull { optional: false, as_: crate::rec::PullAs::Raw }).collect(), respond: vec![RespDatum::I32(k as i32)], ..Default::default() },
        })
        .collect()
}

pub fn judge(node: &Node<'static, LogDev>, model: &Tree, bytes: &[u8], obs: &Obs) -> CheckResult {
    judge_arity(node, model, bytes, None, obs)
}

/// `arity = Some(m)`: every handler pulls exactly `m` required elements. The
/// first unit whose data count differs fails: -109 when it has fewer (the
/// handler saw all of them), -108 when it has more (the handler saw the first
/// `m`); only messages the recogniser calls well-formed are judged.
pub fn judge_arity(node: &Node<'static, LogDev>, model: &Tree, bytes: &[u8], arity: Option<usize>, obs: &Obs) -> CheckResult {
    let Some(mut exp) = expectation(model, bytes) else {
        obs.label("no claim (input outside the recognised subset)");
        return Ok(());
    };
    if let Some(m) = arity {
        if exp.partial.is_some() || exp.want == Want::CommandError {
            obs.label("no claim (arity mode judges well-formed messages only)");
            return Ok(());
        }
        if let Some(i) = exp.calls.iter().position(|c| c.2.len() != m) {
            let fewer = exp.calls[i].2.len() < m;
            exp.calls.truncate(i + 1);
            if !fewer {
                exp.calls[i].2.truncate(m);
            }
            exp.want = Want::Arity(if fewer { -109 } else { -108 });
            obs.label(if fewer { "arity: missing parameter expected" } else { "arity: surplus parameter expected" });
        }
    }
    compare(node, bytes, &exp, arity, false, obs)?;
    if arity.is_none() && exp.want == Want::CommandError {
        // the same with handlers that do not propagate the error of a parameter pull: a
        // lexical fault must abort the message all the same
        obs.label("judged again with handlers that ignore pull errors");
        compare(node, bytes, &exp, arity, true, &Obs::new())?;
    }
    Ok(())
}

fn compare(node: &Node<'static, LogDev>, bytes: &[u8], exp: &Expect, arity: Option<usize>, swallow: bool, obs: &Obs) -> CheckResult {
    let txt = if swallow { format!("{} [handlers ignore pull errors]", escape(bytes)) } else { escape(bytes) };
    let mut dev = LogDev::with_plan(plans(arity, swallow));
    // calls beyond the scripted plans all answer with N_PLANS
    dev.default_plan = plans(arity, swallow).pop().map(|mut p| { p.respond = vec![RespDatum::I32(N_PLANS as i32)]; p }).unwrap();
    let mut ctx = Context::default();
    let mut resp: Vec<u8> = Vec::new();
    let result = node.run(bytes, &mut dev, &mut ctx, &mut resp);
    obs.label(match exp.want {
        Want::Success => "judged: success expected",
        Want::Exactly(_) => "judged: undefined header expected",
        Want::Arity(_) => "judged: parameter-count error expected",
        Want::CommandError => "judged: command error expected",
        Want::NoClaim => "judged: prefix only",
    });
    obs.label("judged");
    obs.label_if(exp.units >= 2, "judged message with two or more units");
    if exp.units >= 2 && exp.want != Want::NoClaim {
        obs.nontrivial(&bytes);
    }
    let got: Vec<ExpCall> = dev.calls.iter().map(|c| (c.leaf, c.query, c.offered.clone())).collect();
    let n = exp.calls.len();
    // handlers of the judged prefix: exactly these, in order, each with exactly its data
    for (i, w) in exp.calls.iter().enumerate() {
        match got.get(i) {
            None => fail!("unit-not-run", "{txt:?}: unit {i} (leaf {}, query={}) did not run; handlers that ran: {:?}", w.0, w.1, got.iter().map(|g| (g.0, g.1)).collect::<Vec<_>>()),
            Some(g) => {
                ensure!(g.0 == w.0 && g.1 == w.1, "wrong-handler", "{txt:?}: unit {i} ran leaf {} query={}, the header designates leaf {} query={}", g.0, g.1, w.0, w.1);
                ensure!(g.2 == w.2, "wrong-data", "{txt:?}: unit {i} (leaf {}) was offered {:?}, its data are {:?}", w.0, g.2, w.2);
            }
        }
    }
    match exp.want {
        Want::NoClaim => return Ok(()),
        Want::Success => {
            if let Err(e) = &result {
                fail!("wellformed-rejected", "{txt:?}: every unit designates a leaf, yet run returned {}", e.get_code());
            }
            ensure!(got.len() == n, "extra-handler", "{txt:?}: {} handlers ran for {n} units: {:?}", got.len(), got.iter().map(|g| (g.0, g.1)).collect::<Vec<_>>());
            ensure!(dev.errors.is_empty(), "hook-on-success", "{txt:?}: the error hook was called {} times for a successful message", dev.errors.len());
            let mut want = Vec::new();
            for (k, c) in exp.calls.iter().enumerate() {
                if c.1 {
                    if !want.is_empty() {
                        want.push(b';');
                    }
                    want.extend_from_slice(k.min(N_PLANS).to_string().as_bytes());
                }
            }
            if !want.is_empty() {
                want.push(b'\n');
            }
            ensure!(resp == want, "response-framing", "{txt:?}: response {:?}, expected {:?}", escape(&resp), escape(&want));
        }
        Want::Exactly(code) => {
            let e = match &result {
                Ok(()) => fail!("fault-swallowed", "{txt:?}: unit {n} designates no node, yet run returned Ok"),
                Err(e) => *e,
            };
            ensure!(e.get_code() == code, "wrong-error", "{txt:?}: unit {n} designates no node: run returned {}, expected {code}", e.get_code());
            ensure!(got.len() == n, "handler-after-failure", "{txt:?}: unit {n} designates no node, handlers that ran: {:?}", got.iter().map(|g| (g.0, g.1)).collect::<Vec<_>>());
            ensure!(dev.errors.len() == 1 && dev.errors[0] == e, "hook", "{txt:?}: run returned {e:?}, the hook received {:?}", dev.errors);
        }
        Want::Arity(code) => {
            let e = match &result {
                Ok(()) => fail!("fault-swallowed", "{txt:?}: unit {} has {} the handler's {} required parameters, yet run returned Ok", n - 1, if code == -109 { "fewer data than" } else { "more data than" }, arity.unwrap_or(0)),
                Err(e) => *e,
            };
            ensure!(e.get_code() == code, "wrong-error", "{txt:?}: unit {} with a wrong parameter count: run returned {}, expected {code}", n - 1, e.get_code());
            ensure!(got.len() == n, "handler-after-failure", "{txt:?}: unit {} fails with {code}, handlers that ran: {:?}", n - 1, got.iter().map(|g| (g.0, g.1)).collect::<Vec<_>>());
            ensure!(dev.errors.len() == 1 && dev.errors[0] == e, "hook", "{txt:?}: run returned {e:?}, the hook received {:?}", dev.errors);
        }
        Want::CommandError => {
            let e = match &result {
                Ok(()) => fail!("fault-swallowed", "{txt:?}: the message violates 488.2 syntax (a violation listed in C04), yet run returned Ok"),
                Err(e) => *e,
            };
            ensure!((-199..=-100).contains(&e.get_code()), "wrong-error", "{txt:?}: syntax violation reported as {}", e.get_code());
            ensure!(dev.errors.len() == 1 && dev.errors[0] == e, "hook", "{txt:?}: run returned {e:?}, the hook received {:?}", dev.errors);
            match (&exp.partial, got.len() - n) {
                (_, 0) => {}
                (Some(p), 1) => {
                    let g = &got[n];
                    ensure!(g.0 == p.0 && g.1 == p.1, "wrong-handler", "{txt:?}: the failing unit ran leaf {} query={}, its header designates leaf {} query={}", g.0, g.1, p.0, p.1);
                    ensure!(p.2.starts_with(&g.2), "wrong-data", "{txt:?}: the failing unit was offered {:?}, its data before the violation are {:?}", g.2, p.2);
                }
                _ => fail!("handler-after-failure", "{txt:?}: {} handlers ran, {n} units precede the violation: {:?}", got.len(), got.iter().map(|g| (g.0, g.1)).collect::<Vec<_>>()),
            }
        }
    }
    Ok(())
}

thread_local! {
    static FIX_MODEL: Tree = fixtree_model();
    static CLASS_MODEL: Tree = classtree_model();
    static MACRO_MODEL: Tree = macrotree_model();
}

/// Tree `idx` of the pool derived from `seed`.
pub fn pool_tree(seed: u64, idx: u32) -> Tree {
    crate::engine::sample_strategy(&crate::gen::tree::tree_strategy(), crate::engine::seed_bytes(seed, "C02", "tree-pool", idx as u64), 1).pop().unwrap()
}

/// The token alphabet of a tree for the bounded-exhaustive campaign: up to 7
/// of its node names in received (short) form, one common command if it has
/// one, and the header punctuation.
pub fn tree_tokens(tree: &Tree) -> Vec<Vec<u8>> {
    fn names(nodes: &[TNode], out: &mut Vec<Vec<u8>>, common: &mut Option<Vec<u8>>) {
        for n in nodes {
            let name = n.name();
            if let Some(c) = name.strip_prefix('*') {
                if common.is_none() {
                    *common = Some(format!("*{}", String::from_utf8_lossy(&crate::model::mnemonic::response_form(c.as_bytes()))).into_bytes());
                }
            } else if !name.is_empty() {
                let f = crate::model::mnemonic::response_form(name.as_bytes());
                // (no short form: the full spelling)
                let f = if f.first().map_or(true, |c| !c.is_ascii_alphabetic()) { name.as_bytes().to_vec() } else { f };
                if !out.contains(&f) {
                    out.push(f);
                }
            }
            names(n.children(), out, common);
        }
    }
    let mut v = Vec::new();
    let mut common = None;
    names(&tree.root, &mut v, &mut common);
    v.truncate(7);
    v.extend(common);
    for p in [&b":"[..], b";", b"?"] {
        v.push(p.to_vec());
    }
    v
}

/// Tokens for the fixed tree: its mnemonics, a common command, header
/// punctuation, a first and a further datum, the terminator.
pub const FIX_TOKENS: &[&[u8]] = &[b"A", b"B", b"C", b"D", b"E", b"*X", b":", b";", b"?", b" 1", b",'x'", b"\n"];

pub fn concat(tokens: &[Vec<u8>], idx: &[u8]) -> Vec<u8> {
    let mut v = Vec::new();
    for i in idx {
        v.extend_from_slice(&tokens[*i as usize]);
    }
    v
}

thread_local! {
    static POOL_CACHE: std::cell::RefCell<Option<(u64, u32, Tree, crate::gen::tree::Realized)>> = const { std::cell::RefCell::new(None) };
}

pub fn check(case: &Case, obs: &Obs) -> CheckResult {
    match case {
        Case::Pool { seed, idx, bytes } => POOL_CACHE.with(|c| {
            let mut c = c.borrow_mut();
            if !matches!(&*c, Some((s, i, _, _)) if s == seed && i == idx) {
                let tree = pool_tree(*seed, *idx);
                let real = realize(&tree);
                *c = Some((*seed, *idx, tree, real));
            }
            let (_, _, tree, real) = c.as_ref().unwrap();
            judge(&real.root, tree, bytes, obs).map_err(|mut f| {
                f.message = format!("{} [tree: {}]", f.message, serde_json::to_string(tree).unwrap_or_default());
                f
            })
        }),
        Case::Fix { bytes } => FIX_MODEL.with(|m| judge(&crate::fixtree::FIXTREE, m, bytes, obs)),
        Case::Repeat { head, item, n, tail } => {
            let mut bytes = head.0.clone();
            for _ in 0..*n {
                bytes.extend_from_slice(item);
            }
            bytes.extend_from_slice(tail);
            FIX_MODEL.with(|m| judge(&crate::fixtree::FIXTREE, m, &bytes, obs))
        }
        Case::FixArity { bytes, pulls } => FIX_MODEL.with(|m| judge_arity(&crate::fixtree::FIXTREE, m, bytes, Some(*pulls as usize), obs)),
        Case::Macro { bytes } => MACRO_MODEL.with(|m| judge(&MACRO_TREE, m, bytes, obs)),
        Case::Class { bytes } => CLASS_MODEL.with(|m| judge(&crate::props::c01::CLASS_TREE, m, bytes, obs)),
        Case::Gen { tree, bytes } => {
            let real = realize(tree);
            judge(&real.root, tree, bytes, obs)
        }
    }
}

/// Self-test of the two hand-written models: the long form of every leaf's
/// path runs exactly that leaf on the real tree.
pub fn models_agree() -> Result<(), String> {
    fn walk(nodes: &[TNode], prefix: &str, out: &mut Vec<(String, usize)>) {
        for n in nodes {
            let p = if n.name().starts_with('*') || prefix.is_empty() { format!("{prefix}{}", n.name()) } else { format!("{prefix}:{}", n.name()) };
            match n {
                TNode::Leaf { id, name, .. } => {
                    if !name.is_empty() {
                        out.push((p, *id));
                    } else {
                        out.push((prefix.to_string(), *id));
                    }
                }
                TNode::Branch { children, .. } => walk(children, &p, out),
            }
        }
    }
    for (model, node, what) in [(fixtree_model(), &crate::fixtree::FIXTREE, "FIXTREE"), (classtree_model(), &crate::props::c01::CLASS_TREE, "CLASS_TREE"), (macrotree_model(), &MACRO_TREE, "MACRO_TREE")] {
        let mut paths = Vec::new();
        walk(&model.root, "", &mut paths);
        for (p, id) in paths {
            let mut dev = LogDev::default();
            dev.default_plan = UnitPlan::greedy();
            let mut ctx = Context::default();
            let mut resp: Vec<u8> = Vec::new();
            let r = node.run(p.as_bytes(), &mut dev, &mut ctx, &mut resp);
            if r.is_err() || dev.calls.len() != 1 || dev.calls[0].leaf != id {
                return Err(format!("{what}: {p:?} should run leaf {id}: result {:?}, calls {:?}", r.map_err(|e| e.get_code()), dev.calls.iter().map(|c| c.leaf).collect::<Vec<_>>()));
            }
        }
    }
    Ok(())
}
