//! One module per property.
use crate::engine::PropertyMeta;

pub mod status_common;
pub mod execdiff;
pub mod c01;
pub mod c02;
pub mod c03;
pub mod c04;
pub mod c05;
pub mod c06;
pub mod c07;
pub mod c08;
pub mod c09;
pub mod c10;
pub mod c11;
pub mod c12;
pub mod c13;
pub mod c14;
pub mod c15;
pub mod c16;
pub mod c17;
pub mod c18;
pub mod c19;
pub mod c20;

pub fn all() -> Vec<PropertyMeta> {
    vec![c01::meta(), c02::meta(), c03::meta(), c04::meta(), c05::meta(), c06::meta(), c07::meta(), c08::meta(), c09::meta(), c10::meta(), c11::meta(), c12::meta(), c13::meta(), c14::meta(), c15::meta(), c16::meta(), c17::meta(), c18::meta(), c19::meta(), c20::meta()]
}
