//! One module per property.
use crate::engine::PropertyMeta;

#[cfg(feature = "full")]
pub mod status_common;
#[cfg(feature = "full")]
pub mod execdiff;
#[cfg(feature = "full")]
pub mod c01;
#[cfg(feature = "full")]
pub mod c02;
pub mod c03;
#[cfg(feature = "full")]
pub mod c04;
#[cfg(feature = "full")]
pub mod c05;
#[cfg(feature = "full")]
pub mod c06;
pub mod c07;
pub mod c08;
#[cfg(feature = "full")]
pub mod c09;
#[cfg(feature = "full")]
pub mod c10;
#[cfg(feature = "full")]
pub mod c11;
pub mod c12;
#[cfg(feature = "full")]
pub mod c13;
#[cfg(feature = "full")]
pub mod c14;
#[cfg(feature = "full")]
pub mod c15;
#[cfg(feature = "full")]
pub mod c16;
#[cfg(feature = "full")]
pub mod c17;
#[cfg(feature = "full")]
pub mod c18;
pub mod c19;
pub mod c20;

#[cfg(feature = "full")]
pub fn all() -> Vec<PropertyMeta> {
    vec![c01::meta(), c02::meta(), c03::meta(), c04::meta(), c05::meta(), c06::meta(), c07::meta(), c08::meta(), c09::meta(), c10::meta(), c11::meta(), c12::meta(), c13::meta(), c14::meta(), c15::meta(), c16::meta(), c17::meta(), c18::meta(), c19::meta(), c20::meta()]
}

/// The minimal configuration (scpi without alloc and without unit features) compiles only the
/// properties whose subject lives in scpi itself and needs neither.
#[cfg(not(feature = "full"))]
pub fn all() -> Vec<PropertyMeta> {
    vec![c03::meta(), c07::meta(), c08::meta(), c12::meta(), c19::meta(), c20::meta()]
}
