//! C06 — a handler sees exactly its own unit's parameters; wrong arity is an error.
use crate::bytes::escape;
use crate::engine::{CheckResult, Engine, Obs, PropertyMeta};
use crate::fixtree::{fixed_header, FIXTREE};
use crate::gen::msg::*;
use crate::gen::plan::pulls_for;
use crate::rec::{LogDev, Pull, PullAs, PullResult, UnitPlan};
use crate::{ensure, fail};
use proptest::prelude::*;
use scpi::Context;
use serde::{Deserialize, Serialize};

pub fn meta() -> PropertyMeta {
    PropertyMeta {
        id: "C06",
        level: "exploration",
        rule: "messages of 1..5 units whose headers designate leaves of a fixed tree, each unit carrying 0..5 data of any of the seven kinds with any legal white space and every message ending; per unit a handler plan pulling 0..6 parameters, each required or optional, through next_token / next_optional_token and (where the element kind makes the result predictable, and beyond the supplied data) next_data::<T> / next_optional_data::<T>. Oracle by construction: offered tokens = the unit's own data in order; the first required pull beyond them gives -109, an optional one None; unconsumed data give -108 and stop the message. PLUS from bytes (props/execdiff.rs, arity mode): ALL strings of up to 7 (8) tokens on the fixed tree x handlers pulling exactly 0, 1, 2, 3 required elements (first unit with a different data count fails with -109 / -108, seen data = its own), and units of 2^8 / 2^16 +- 1 data elements. Non-trivial: pulled != supplied, or a unit with parameters followed by another unit with parameters.",
        assumptions: &["messages come from the sound 488.2 grammar subset of DESIGN 3.1; headers are absolute so that path resolution plays no role"],
        run,
    }
}

#[derive(Clone, Debug, Serialize, Deserialize, Hash)]
pub struct Case {
    pub msg: Msg,
    pub pulls: Vec<Vec<Pull>>,
}

pub fn check(case: &Case, obs: &Obs) -> CheckResult {
    let r = case.msg.render();
    let txt = escape(&r.bytes);
    let mut dev = LogDev::with_plan(case.pulls.iter().map(|p| UnitPlan { pulls: p.clone(), ..Default::default() }).collect());
    let mut ctx = Context::default();
    let mut resp: Vec<u8> = Vec::new();
    let res = FIXTREE.run(&r.bytes, &mut dev, &mut ctx, &mut resp);
    // the parameter list of every unit, pulled through a FRESH `Parameters` object per element over one
    // token stream (a staged or helper-based handler): the same elements as through a single object
    for (ui, u) in case.msg.units.iter().enumerate() {
        if u.data.len() < 2 || u.data.iter().any(|d| d.is_indefinite()) {
            continue;
        }
        let spans: Vec<(usize, usize)> = r.data_spans.iter().filter(|(i, _, _)| *i == ui).map(|(_, s, e)| (*s, *e)).collect();
        let (Some(first), Some(last)) = (spans.first(), spans.last()) else { continue };
        let list = &r.bytes[first.0..last.1];
        let supplied: Vec<ETok> = u.data.iter().map(|d| d.expected()).collect();
        let mut toks = scpi::parser::tokenizer::Tokenizer::new_params(list).peekable();
        let mut got: Vec<ETok> = Vec::new();
        loop {
            let mut p = scpi::parser::parameters::Parameters::with(&mut toks);
            match p.next_optional_token() {
                Ok(Some(t)) => got.push(ETok::from(t)),
                Ok(None) => break,
                Err(e) => fail!("rewrap-error", "{:?}: pulling the list {:?} through a fresh Parameters per element fails with {} after {} elements", txt, escape(list), e.get_code(), got.len()),
            }
            if got.len() > supplied.len() {
                break;
            }
        }
        obs.label("parameter list pulled through a fresh Parameters per element");
        ensure!(got == supplied, "rewrap-differs", "{:?}: the list {:?} pulled through a fresh Parameters per element gives {got:?}, its elements are {supplied:?}", txt, escape(list));
    }
    // expectation, unit by unit
    let mut expected_err: Option<i16> = None;
    let mut expected_calls = 0;
    let mut nontrivial = false;
    for (i, u) in case.msg.units.iter().enumerate() {
        expected_calls += 1;
        let supplied: Vec<ETok> = u.data.iter().map(|d| d.expected()).collect();
        let pulls = &case.pulls[i];
        if pulls.len() != supplied.len() {
            nontrivial = true;
        }
        if i + 1 < case.msg.units.len() && !supplied.is_empty() && !case.msg.units[i + 1].data.is_empty() {
            nontrivial = true;
            obs.label("unit with parameters followed by a unit with parameters");
        }
        let Some(call) = dev.calls.get(i) else {
            fail!("handler-not-run", "{txt:?}: unit {i} never ran (result {:?})", res.as_ref().map_err(|e| e.get_code()));
        };
        // walk the pulls
        let mut consumed = 0;
        let mut failed = false;
        for (k, p) in pulls.iter().enumerate() {
            let got = call.results.get(k);
            if consumed < supplied.len() {
                let want_tok = &supplied[consumed];
                // a typed pull on an element of another kind: the element is there, so the result is an
                // error (which the handler propagates), never "absent"
                let mismatched = match (&p.as_, want_tok) {
                    (PullAs::Raw, _) | (PullAs::DataF64, ETok::Dec(_)) | (PullAs::DataBytes, ETok::Str(_)) => false,
                    _ => true,
                };
                if mismatched {
                    obs.label("typed pull on an element of another kind");
                    match got {
                        Some(PullResult::Error(code, _)) => {
                            ensure!(*code != -109, "wrong-token", "{txt:?}: unit {i} pull {k} ({p:?}) on the present element {want_tok:?} reports -109 Missing parameter");
                            expected_err = Some(*code);
                            failed = true;
                            break;
                        }
                        Some(PullResult::None) => fail!("optional-none-for-present", "{txt:?}: unit {i} optional pull {k} ({p:?}) returned None although the unit's element {consumed} is {want_tok:?}"),
                        other => fail!("wrong-token", "{txt:?}: unit {i} pull {k} ({p:?}) gave {other:?} for the element {want_tok:?} of another kind"),
                    }
                }
                match (&p.as_, got) {
                    (PullAs::Raw, Some(PullResult::Token(t))) => ensure!(t == want_tok, "wrong-token", "{txt:?}: unit {i} pull {k} returned {t:?}, the unit's element {consumed} is {want_tok:?}"),
                    (PullAs::DataF64, Some(PullResult::Converted(s))) => {
                        let ETok::Dec(lit) = want_tok else { fail!("harness-plan", "typed pull on wrong kind") };
                        let want = format!("{:?}", std::str::from_utf8(lit).unwrap().parse::<f64>().unwrap());
                        ensure!(*s == want, "wrong-token", "{txt:?}: unit {i} pull {k} next_data::<f64> = {s}, element is {want_tok:?}");
                    }
                    (PullAs::DataBytes, Some(PullResult::Converted(s))) => {
                        let ETok::Str(raw) = want_tok else { fail!("harness-plan", "typed pull on wrong kind") };
                        ensure!(*s == format!("{:?}", &raw[..]), "wrong-token", "{txt:?}: unit {i} pull {k} next_data::<&[u8]> = {s}, element is {want_tok:?}");
                    }
                    (_, other) => fail!("wrong-token", "{txt:?}: unit {i} pull {k} ({p:?}) gave {other:?}, the unit's element {consumed} is {want_tok:?}"),
                }
                consumed += 1;
            } else if p.optional {
                obs.label("optional pull beyond the supplied data");
                ensure!(got == Some(&PullResult::None), "optional-beyond", "{txt:?}: unit {i} optional pull {k} beyond its {} data returned {got:?}, expected None", supplied.len());
            } else {
                obs.label("required pull beyond the supplied data");
                match got {
                    Some(PullResult::Error(-109, _)) => {}
                    other => fail!("required-beyond", "{txt:?}: unit {i} required pull {k} beyond its {} data returned {other:?}, expected -109 Missing parameter", supplied.len()),
                }
                expected_err = Some(-109);
                failed = true;
                break;
            }
        }
        // offered raw tokens must be a prefix of the unit's own data
        // (typed next_data pulls do not record a raw token, so the raw ones form a subsequence)
        let mut at = 0;
        for t in call.offered.iter() {
            match supplied[at..].iter().position(|s| s == t) {
                Some(p) => at += p + 1,
                None => fail!("foreign-token", "{txt:?}: unit {i} was offered {t:?}, which is not (the next) one of its own data {supplied:?}"),
            }
        }
        if failed {
            break;
        }
        if consumed < supplied.len() {
            obs.label("handler leaves data unconsumed");
            expected_err = Some(-108);
            break;
        }
    }
    obs.nontrivial_if(nontrivial, case);
    match (expected_err, &res) {
        (None, Ok(())) => {}
        (Some(c), Err(e)) if e.get_code() == c => {}
        (want, got) => fail!("arity-result", "{txt:?} with pulls {:?}: run returned {:?}, expected {want:?}", case.pulls.iter().map(|p| p.len()).collect::<Vec<_>>(), got.as_ref().map_err(|e| e.get_code())),
    }
    ensure!(dev.calls.len() == expected_calls, "later-unit-ran", "{txt:?}: {} handlers ran, expected {expected_calls} (failure must stop the message before the next unit)", dev.calls.len());
    Ok(())
}

fn case_strategy() -> impl Strategy<Value = Case> {
    crate::fixtree::fixed_message(any::<bool>().boxed(), 5, 5, true, true)
        .prop_flat_map(|msg| {
            let per_unit: Vec<BoxedStrategy<Vec<Pull>>> = msg
                .units
                .iter()
                .map(|u| {
                    let d = u.data.clone();
                    let n = d.len();
                    // mostly exactly the supplied count, sometimes fewer / more
                    prop_oneof![5 => Just(n), 2 => 0usize..=6, 1 => Just(n + 1), 1 => Just(n.saturating_sub(1))].prop_flat_map(move |m| pulls_for(&d, m)).boxed()
                })
                .collect();
            (Just(msg), per_unit)
        })
        .prop_map(|(msg, pulls)| Case { msg, pulls })
}

fn run(e: &Engine) {
    e.proptest("parameter-arity", e.tier.pick(300_000, 10_000_000), case_strategy, check);
    for l in ["optional pull beyond the supplied data", "required pull beyond the supplied data", "handler leaves data unconsumed", "unit with parameters followed by a unit with parameters"] {
        if !e.replay_only && !e.failed() && e.label_count(l) < 1000 {
            e.harness_error(format!("generator unhealthy: only {} cases labelled {l:?}", e.label_count(l)));
        }
    }
    // from bytes: ALL strings of up to N tokens on the fixed tree with handlers that pull exactly
    // 0, 1, 2 or 3 required elements; the recogniser + resolver say which unit is the first with a
    // different data count and therefore fails with -109 / -108 (see props/execdiff.rs)
    use crate::props::execdiff::{self, Case as D};
    let toks: Vec<Vec<u8>> = ARITY_TOKENS.iter().map(|t| t.to_vec()).collect();
    let idx: Vec<u8> = (0..toks.len() as u8).collect();
    let tp = crate::gen::enumstr::Partitioned { alpha: &idx, max_len: if cfg!(debug_assertions) { e.tier.pick(5, 6) } else { e.tier.pick(7, 8) }, prefix_len: 2 };
    let (tpr, toksr) = (&tp, &toks);
    e.enumerate::<D, _, _>(
        "bytes-differential-arity-all-token-strings",
        tp.parts() * 4,
        move |part, f| {
            let pulls = (part % 4) as u8;
            tpr.run(part / 4, &mut |s| f(D::FixArity { bytes: crate::bytes::B(execdiff::concat(toksr, s)), pulls }))
        },
        execdiff::check,
    );
    // 2^8 and 2^16 data elements in one unit (the handler is offered every one of them, the next unit none)
    if !cfg!(debug_assertions) {
        use crate::bytes::B;
        let mut big: Vec<D> = Vec::new();
        for n in [255u32, 256, 257, 65_535, 65_536, 65_537, 70_000] {
            big.push(D::Repeat { head: B(b"B:C 0".to_vec()), item: B(b",1".to_vec()), n, tail: B(b";D? 5".to_vec()) });
            big.push(D::Repeat { head: B(b"A 'a'".to_vec()), item: B(b" , #11x".to_vec()), n, tail: B(b";A (1,2);*X".to_vec()) });
            big.push(D::Repeat { head: B(b"*X;A ABC".to_vec()), item: B(b",DEF".to_vec()), n, tail: B(b"\n".to_vec()) });
        }
        e.fixed("bytes-differential-2^8-and-2^16-data-elements", big, execdiff::check);
    }
    for l in ["arity: missing parameter expected", "arity: surplus parameter expected"] {
        if !e.replay_only && !e.failed() && e.label_count(l) < 1000 {
            e.harness_error(format!("generator unhealthy: only {} cases labelled {l:?}", e.label_count(l)));
        }
    }
}

/// Tokens of the arity enumeration: two leaves, a branch step, unit and data
/// separators, first / further data of three types, query mark, terminator.
pub const ARITY_TOKENS: &[&[u8]] = &[b"A", b":B:E", b"*X", b";", b"?", b" 1", b" 'x'", b",2", b",#11z", b"\n"];
