//! C01 — arbitrary input is processed totally: no panic, overflow, hang or internal error.
use crate::bytes::{escape, B};
use crate::engine::{CheckResult, Engine, Obs, PropertyMeta};
use crate::fixtree::{fixed_message, FIXTREE};
use crate::gen::enumstr::Partitioned;
use crate::gen::msg::*;
use crate::gen::tree::{realize, tree_strategy, Tree};
use crate::props::c02::Intent;
use crate::rec::{all_pull_kinds, is_internal_error, LogDev, Pull, PullAs, Rec, UnitPlan};
use crate::{ensure, fail};
use proptest::prelude::*;
use scpi::parser::expression::channel_list::{self as cl, ChannelList};
use scpi::parser::expression::numeric_list::NumericList;
use scpi::parser::tokenizer::Tokenizer;
use scpi::tree::Node;
use scpi::Context;
use serde::{Deserialize, Serialize};

pub fn meta() -> PropertyMeta {
    PropertyMeta {
        id: "C01",
        level: "exploration",
        rule: "(a) raw byte strings (uniform bytes and SCPI-flavoured alphabets); (b) grammar-generated messages (fixed tree and generated trees with default nodes / suffix siblings / anonymous default leaf) put through byte-level mutation (flip, insert, delete, duplicate a slice, splice two messages, truncate) with handler plans that pull 0..6 parameters through every typed conversion (ten integers, f32/f64, bool, bytes, str, block, character, expression, derived enum, numeric_value, unit quantities, amplitude, decibel, AUTO, both list iterators with every spec conversion, and 'all of them on the same token'); EVERY byte prefix of generated messages; (c) ALL strings up to length 6 (quick) / 7 (thorough) over a 19-symbol alphabet with one representative per lexical class against a tree built from those letters with a convert-everything handler; (d) Tokenizer, ChannelList and NumericList driven directly on the same inputs, plus ALL strings up to length 6 / 8 over a 14-symbol list alphabet. Invariants: returns without panic (the check runs on a build with debug assertions + overflow checks and on a release build), never the library's internal-parser-error, no iterator yields more items than input bytes + 1. (e) Long runs (250..262, 508..516, 1000, 4095/4096, 65534..65537, 70000) of one lexical class in every element position, of leading zeros in every numeric field, and of repeated units / data / list entries; handlers that swallow pull errors. Non-trivial: a data element reached a typed conversion, or processing got past the first byte before the first error.",
        assumptions: &["a genuine hang would surface as a timeout of the check (exit 2); termination is witnessed by item counts"],
        run,
    }
}

#[derive(Clone, Debug, Serialize, Deserialize, Hash)]
pub enum Mutation {
    None,
    Flip(u32, u8),
    Insert(u32, u8),
    Delete(u32, u8),
    Duplicate(u32, u8),
    Truncate(u32),
    Splice(u32, u32),
}

#[derive(Clone, Debug, Serialize, Deserialize, Hash)]
pub enum Case {
    /// bytes run on the fixed tree with plans
    Fixed { bytes: B, plans: Vec<UnitPlan> },
    /// bytes run on a generated tree
    Generated { tree: Tree, bytes: B, plans: Vec<UnitPlan> },
    /// bytes on the class-alphabet tree with the convert-everything handler, and directly into the lexers
    Class { bytes: B },
    /// bytes as list expression content
    List { bytes: B },
}

fn everything_plan() -> UnitPlan {
    UnitPlan { pulls: (0..8).map(|_| Pull { optional: true, as_: PullAs::All }).collect(), greedy: true, ..Default::default() }
}

/// Tree over the letters of the class alphabet (B, E, digits 1 0).
pub const CLASS_TREE: Node<'static, LogDev> = Node::Branch {
    name: b"",
    default: false,
    sub: &[
        Node::Leaf { name: b"*B", default: false, handler: &Rec { id: 0 } },
        Node::Leaf { name: b"*EB1", default: false, handler: &Rec { id: 1 } },
        Node::Leaf { name: b"B", default: false, handler: &Rec { id: 2 } },
        Node::Branch {
            name: b"E",
            default: false,
            sub: &[
                Node::Leaf { name: b"", default: true, handler: &Rec { id: 3 } },
                Node::Leaf { name: b"B", default: false, handler: &Rec { id: 4 } },
                Node::Branch { name: b"EB10", default: true, sub: &[Node::Leaf { name: b"BE", default: true, handler: &Rec { id: 5 } }, Node::Leaf { name: b"E1", default: false, handler: &Rec { id: 6 } }] },
            ],
        },
        Node::Leaf { name: b"BB1", default: false, handler: &Rec { id: 7 } },
        Node::Leaf { name: b"BB10", default: false, handler: &Rec { id: 8 } },
    ],
};

fn total_run(tree: &Node<'static, LogDev>, bytes: &[u8], plans: &[UnitPlan], default_plan: UnitPlan, obs: &Obs) -> Result<bool, crate::engine::Failure> {
    let mut dev = LogDev::with_plan(plans.to_vec());
    dev.default_plan = default_plan;
    let mut ctx = Context::default();
    let mut resp: Vec<u8> = Vec::new();
    let res = tree.run(bytes, &mut dev, &mut ctx, &mut resp);
    if let Err(e) = &res {
        if is_internal_error(e) {
            return Err(crate::engine::Failure::new("internal-error", format!("{:?}: run surfaces the internal parser error {e:?}", escape(bytes))));
        }
        if dev.errors.len() != 1 {
            return Err(crate::engine::Failure::new("hook-count", format!("{:?}: failed run called the error hook {} times", escape(bytes), dev.errors.len())));
        }
    }
    if let Some(m) = dev.internal_errors.first() {
        return Err(crate::engine::Failure::new("internal-error", format!("{:?}: {m}", escape(bytes))));
    }
    if let Some(m) = dev.runaway.first() {
        return Err(crate::engine::Failure::new("non-termination", format!("{:?}: {m}", escape(bytes))));
    }
    let converted = dev.calls.iter().any(|c| c.results.iter().any(|r| matches!(r, crate::rec::PullResult::Converted(_) | crate::rec::PullResult::Token(_))));
    obs.label_if(res.is_ok(), "message accepted");
    obs.label_if(!dev.calls.is_empty(), "a handler ran");
    obs.label_if(converted, "a data element reached a conversion");
    Ok(converted || !dev.calls.is_empty())
}

fn total_direct(bytes: &[u8]) -> CheckResult {
    // bare tokenizer, both entry points
    for params in [false, true] {
        let t = if params { Tokenizer::new_params(bytes) } else { Tokenizer::new(bytes) };
        let mut n = 0usize;
        for item in t {
            n += 1;
            ensure!(n <= bytes.len() + 1, "non-termination", "{:?}: Tokenizer yields more than {} items", escape(bytes), bytes.len() + 1);
            if item.is_err() {
                break;
            }
        }
    }
    Ok(())
}

fn total_lists(bytes: &[u8]) -> CheckResult {
    let mut n = 0usize;
    for item in NumericList::new(bytes) {
        n += 1;
        ensure!(n <= bytes.len() + 1, "non-termination", "{:?}: NumericList yields more than {} items", escape(bytes), bytes.len() + 1);
        match item {
            Ok(_) => {}
            Err(e) => {
                ensure!(!is_internal_error(&e), "internal-error", "{:?}: NumericList item {e:?}", escape(bytes));
                break;
            }
        }
    }
    {
        let cap = bytes.len() + 2;
        let mut it = NumericList::new(bytes);
        for _ in 0..cap {
            let (lo, hi) = it.size_hint();
            ensure!(hi.map_or(true, |h| lo <= h), "size-hint", "{:?}: NumericList size_hint() = ({lo}, {hi:?})", escape(bytes));
            if !matches!(it.next(), Some(Ok(_))) {
                break;
            }
        }
        let _: Vec<_> = NumericList::new(bytes).take(cap).collect();
        if let Some(mut it) = ChannelList::new(bytes) {
            for _ in 0..cap {
                let (lo, hi) = it.size_hint();
                ensure!(hi.map_or(true, |h| lo <= h), "size-hint", "{:?}: ChannelList size_hint() = ({lo}, {hi:?})", escape(bytes));
                if !matches!(it.next(), Some(Ok(_))) {
                    break;
                }
            }
        }
        if let Some(it) = ChannelList::new(bytes) {
            let _: Vec<_> = it.take(cap).collect();
        }
    }
    if let Some(it) = ChannelList::new(bytes) {
        let mut n = 0usize;
        for item in it {
            n += 1;
            ensure!(n <= bytes.len() + 1, "non-termination", "{:?}: ChannelList yields more than {} items", escape(bytes), bytes.len() + 1);
            let specs: Vec<cl::ChannelSpec> = match item {
                Ok(cl::Token::ChannelSpec(s)) => vec![s],
                Ok(cl::Token::ChannelRange(a, b)) => vec![a, b],
                Ok(_) => vec![],
                Err(_) => break,
            };
            for s in specs {
                let mut k = 0;
                for d in s {
                    k += 1;
                    ensure!(k <= bytes.len() + 1, "non-termination", "{:?}: ChannelSpec yields more than {} dimensions", escape(bytes), bytes.len() + 1);
                    if d.is_err() {
                        break;
                    }
                }
                // the iterator's other entry points must be total as well: size_hint at every position (what
                // `collect` and `extend` call whenever they grow), bounded collect, count, last, nth
                let cap = bytes.len() + 2;
                let collected: Vec<_> = s.into_iter().take(cap).collect();
                ensure!(collected.len() <= cap, "non-termination", "{:?}: collect", escape(bytes));
                let finite = collected.len() < cap;
                let mut it = s.into_iter();
                for k in 0..cap {
                    let (lo, hi) = it.size_hint();
                    ensure!(hi.map_or(true, |h| lo <= h), "size-hint", "{:?}: ChannelSpec iterator size_hint() = ({lo}, {hi:?})", escape(bytes));
                    // Iterator's contract: the bounds enclose the number of items that really follow
                    if finite && k <= collected.len() {
                        let left = collected.len() - k;
                        ensure!(lo <= left && hi.map_or(true, |h| h >= left), "size-hint", "{:?}: ChannelSpec iterator after {k} items: size_hint() = ({lo}, {hi:?}) but {left} items follow", escape(bytes));
                    }
                    match it.next() {
                        Some(Ok(_)) => {}
                        _ => break,
                    }
                }
                let _ = s.into_iter().take(cap).count();
                let _ = s.into_iter().take(cap).last();
                let _ = s.into_iter().nth(3);
                let mut v: Vec<Result<isize, _>> = Vec::new();
                v.extend(s.into_iter().take(cap));
                let _: Result<isize, _> = s.try_into();
                let _: Result<usize, _> = s.try_into();
                let _: Result<(isize, isize), _> = s.try_into();
                let _: Result<(usize, usize), _> = s.try_into();
                let _: Result<(isize, isize, isize), _> = s.try_into();
                let _: Result<(usize, usize, usize), _> = s.try_into();
                let _ = (s.dimension(), s.len(), s.is_empty());
            }
        }
    }
    Ok(())
}

pub fn check(case: &Case, obs: &Obs) -> CheckResult {
    match case {
        Case::Fixed { bytes, plans } => {
            let nt = total_run(&FIXTREE, bytes, plans, everything_plan(), obs)?;
            total_direct(bytes)?;
            obs.nontrivial_if(nt, case);
        }
        Case::Generated { tree, bytes, plans } => {
            let real = realize(tree);
            let nt = total_run(&real.root, bytes, plans, everything_plan(), obs)?;
            obs.nontrivial_if(nt, case);
        }
        Case::Class { bytes } => {
            let nt = total_run(&CLASS_TREE, bytes, &[], everything_plan(), obs)?;
            total_direct(bytes)?;
            total_lists(bytes)?;
            obs.nontrivial_if(nt, case);
        }
        Case::List { bytes } => {
            total_lists(bytes)?;
            obs.nontrivial_if(bytes.len() >= 2, case);
        }
    }
    Ok(())
}

// ---------------------------------------------------------------- generators

fn apply_mutation(mut b: Vec<u8>, m: &Mutation, other: &[u8]) -> Vec<u8> {
    let at = |p: u32, len: usize| if len == 0 { 0 } else { (p as usize * len) >> 32 };
    match m {
        Mutation::None => {}
        Mutation::Flip(p, v) => {
            if !b.is_empty() {
                let i = at(*p, b.len());
                b[i] = *v;
            }
        }
        Mutation::Insert(p, v) => {
            let i = at(*p, b.len() + 1);
            b.insert(i, *v);
        }
        Mutation::Delete(p, n) => {
            if !b.is_empty() {
                let i = at(*p, b.len());
                let e = (i + 1 + (*n as usize % 4)).min(b.len());
                b.drain(i..e);
            }
        }
        Mutation::Duplicate(p, n) => {
            if !b.is_empty() {
                let i = at(*p, b.len());
                let e = (i + 1 + (*n as usize % 6)).min(b.len());
                let piece = b[i..e].to_vec();
                for (k, c) in piece.into_iter().enumerate() {
                    b.insert(e + k, c);
                }
            }
        }
        Mutation::Truncate(p) => {
            let i = at(*p, b.len() + 1);
            b.truncate(i);
        }
        Mutation::Splice(p, q) => {
            let i = at(*p, b.len() + 1);
            let j = at(*q, other.len() + 1);
            b.truncate(i);
            b.extend_from_slice(&other[j..]);
        }
    }
    b
}

fn mutation() -> impl Strategy<Value = Mutation> {
    // interesting bytes: separators, quotes, block/expr starters, NUL, high bytes, digits, letters
    let byte = || prop_oneof![3 => any::<u8>(), 5 => prop::sample::select(b";:,?*#\"'() \n\t.+-eE09AZ!@\x00\xff\x80".to_vec())];
    prop_oneof![
        2 => Just(Mutation::None),
        3 => (any::<u32>(), byte()).prop_map(|(p, v)| Mutation::Flip(p, v)),
        3 => (any::<u32>(), byte()).prop_map(|(p, v)| Mutation::Insert(p, v)),
        2 => (any::<u32>(), any::<u8>()).prop_map(|(p, n)| Mutation::Delete(p, n)),
        1 => (any::<u32>(), any::<u8>()).prop_map(|(p, n)| Mutation::Duplicate(p, n)),
        2 => any::<u32>().prop_map(Mutation::Truncate),
        1 => (any::<u32>(), any::<u32>()).prop_map(|(p, q)| Mutation::Splice(p, q)),
    ]
}

fn any_plan() -> impl Strategy<Value = UnitPlan> {
    let kinds = all_pull_kinds();
    let n = kinds.len();
    (proptest::collection::vec((any::<bool>(), 0usize..n + 4), 0..7), any::<bool>(), crate::gen::plan::response(), prop_oneof![20 => Just(None), 1 => crate::gen::plan::err_spec().prop_map(Some)], (prop_oneof![3 => Just(false), 1 => Just(true)], crate::gen::plan::mid_finish())).prop_map(move |(pulls, greedy, (headers, respond), fail, (swallow, mid_finish))| UnitPlan {
        pulls: pulls.into_iter().map(|(optional, k)| Pull { optional, as_: if k >= n { PullAs::All } else { kinds[k] } }).collect(),
        greedy,
        headers,
        respond,
        fail,
        swallow,
        mid_finish,
    })
}

/// Bytes of a fixed-tree message after 0..2 byte-level mutations.
pub fn mutated_fixed_bytes(min_mut: usize) -> impl Strategy<Value = Vec<u8>> {
    (fixed_message(any::<bool>().boxed(), 4, 4, true, true), fixed_message(any::<bool>().boxed(), 2, 3, true, true), proptest::collection::vec(mutation(), min_mut..3)).prop_map(|(a, b, muts)| {
        let other = b.render().bytes;
        let mut bytes = a.render().bytes;
        for m in &muts {
            bytes = apply_mutation(bytes, m, &other);
        }
        bytes
    })
}

fn fixed_case() -> impl Strategy<Value = Case> {
    (mutated_fixed_bytes(1), proptest::collection::vec(any_plan(), 0..5)).prop_map(|(bytes, plans)| Case::Fixed { bytes: B(bytes), plans })
}

fn generated_case() -> impl Strategy<Value = Case> {
    (mutated_generated(), proptest::collection::vec(any_plan(), 0..5)).prop_map(|((tree, bytes), plans)| Case::Generated { tree, bytes: B(bytes), plans })
}

/// A generated tree and the bytes of a message walking it, after 0..2 mutations.
pub fn mutated_generated() -> impl Strategy<Value = (Tree, Vec<u8>)> {
    let intent = || {
        (prop_oneof![4 => Just(0u8), 8 => Just(1u8), 3 => Just(2u8), 1 => Just(3u8), 1 => Just(4u8), 1 => Just(5u8), 1 => Just(6u8)], any::<[u16; 12]>(), any::<u8>(), any::<u8>(), any::<u8>(), 0u8..4, any::<u16>(), any::<u8>(), any::<bool>(), any::<u8>())
            .prop_map(|(kind, picks, stop, omit, long, case, mask, one, query, ws)| Intent { kind, picks, stop, omit, long, case, mask, one, query, ws })
    };
    (tree_strategy(), proptest::collection::vec((intent(), proptest::collection::vec(datum(false), 0..4)), 1..5), proptest::collection::vec(mutation(), 0..3)).prop_map(|(tree, units, muts)| {
        let intents: Vec<Intent> = units.iter().map(|(i, _)| i.clone()).collect();
        let mut msg = crate::props::c02::message_for(&tree, &intents);
        for (u, (_, data)) in msg.units.iter_mut().zip(units.iter()) {
            if !data.is_empty() {
                u.ws_header = B(b" ".to_vec());
                u.data = data.clone();
                u.ws_data = vec![(B::default(), B::default()); data.len() - 1];
            }
        }
        let mut bytes = msg.render().bytes;
        for m in &muts {
            bytes = apply_mutation(bytes, m, b"");
        }
        (tree, bytes)
    })
}

fn raw_case() -> impl Strategy<Value = Case> {
    prop_oneof![
        2 => proptest::collection::vec(any::<u8>(), 0..40).prop_map(|b| Case::Fixed { bytes: B(b), plans: vec![] }),
        4 => proptest::collection::vec(prop::sample::select(b"AB:C*X?;, \n\t\"'#()0123456789.+-eEHhQqBb@!\x00\x80\xff".to_vec()), 0..40).prop_map(|b| Case::Fixed { bytes: B(b), plans: vec![] }),
        2 => proptest::collection::vec(prop::sample::select(b"@0123456789!:,-+'\".eE ()#".to_vec()), 0..24).prop_map(|b| Case::List { bytes: B(b) }),
        1 => proptest::collection::vec(any::<u8>(), 0..24).prop_map(|b| Case::List { bytes: B(b) }),
        // a list expression inside a message on the fixed tree
        2 => proptest::collection::vec(prop::sample::select(b"@0123456789!:,-+.eE".to_vec()), 0..16).prop_map(|b| {
            let mut m = b":A (".to_vec();
            m.extend_from_slice(&b);
            m.extend_from_slice(b")");
            Case::Fixed { bytes: B(m), plans: vec![] }
        }),
    ]
}

/// Grammar-generated (and corrupted) list expressions after 0..3 further mutations with the
/// list's own punctuation: structures such as `1!2!3:!5!6` that raw strings rarely form.
fn mutated_list_case() -> impl Strategy<Value = Case> {
    let list_byte = || prop::sample::select(b"!:,@-+'\"0123456789 .eE()".to_vec());
    let m = prop_oneof![
        2 => Just(Mutation::None),
        3 => (any::<u32>(), list_byte()).prop_map(|(p, v)| Mutation::Insert(p, v)),
        3 => (any::<u32>(), list_byte()).prop_map(|(p, v)| Mutation::Flip(p, v)),
        2 => (any::<u32>(), any::<u8>()).prop_map(|(p, n)| Mutation::Delete(p, n)),
        1 => (any::<u32>(), any::<u8>()).prop_map(|(p, n)| Mutation::Duplicate(p, n)),
        1 => any::<u32>().prop_map(Mutation::Truncate),
    ];
    (crate::props::c19::case_strategy(), proptest::collection::vec(m, 0..4), any::<bool>()).prop_map(|(c, muts, in_message)| {
        let mut bytes = c.text.0.clone();
        for m in &muts {
            bytes = apply_mutation(bytes, m, b"");
        }
        if in_message {
            let mut msg = b":A (".to_vec();
            msg.extend_from_slice(&bytes);
            msg.push(b')');
            Case::Fixed { bytes: B(msg), plans: vec![] }
        } else {
            Case::List { bytes: B(bytes) }
        }
    })
}

pub const CLASS_ALPHABET: &[u8] = b"BE10*:?;, \n\"'#().+\xff";

fn run(e: &Engine) {
    // regression inputs (design-phase observations and past failures)
    let fixed: Vec<Case> = [&b"@1!!2"[..], b"@0!!", b"@11!!", b"@!", b"@1!", b"@-", b"@+!+", b"@1-2-3-4-5", b"@1+2+3+4+5+6+7+8+9+10", b"@1!2-3-4-5-6-7:8", b"1-2-3-4-5-6-7-8-9"].iter().map(|b| Case::List { bytes: B(b.to_vec()) }).collect();
    e.fixed("regression-inputs", fixed, check);
    // long runs of one lexical class in every element position (counters, length limits)
    let mut long: Vec<Case> = Vec::new();
    let lens: Vec<usize> = (250..=262).chain(508..=516).chain([1000, 4095, 4096, 65534, 65535, 65536, 65537, 70000]).collect();
    for n in &lens {
        let run = |c: u8| -> Vec<u8> { vec![c; *n] };
        let templates: Vec<Vec<u8>> = vec![
            [&b":A 1"[..], &run(b'V')].concat(),                 // suffix
            [&b":A 1 "[..], &run(b'V')].concat(),
            [&b":A "[..], &run(b'C')].concat(),                  // character data
            [&b":"[..], &run(b'A')].concat(),                    // mnemonic
            [&b"*"[..], &run(b'A'), &b"?"[..]].concat(),         // common mnemonic
            [&b":A "[..], &run(b'1')].concat(),                  // digits
            [&b":A 1."[..], &run(b'0'), &b"1"[..]].concat(),
            [&b":A 1e"[..], &run(b'9')].concat(),
            [&b":A #H"[..], &run(b'F')].concat(),
            [&b":A '"[..], &run(b'x'), &b"'"[..]].concat(),      // string
            [&b":A ("[..], &run(b'1'), &b")"[..]].concat(),      // expression
            [&b":A (@"[..], &run(b'1'), &b")"[..]].concat(),
            [&b":A"[..], &run(b' '), &b"1"[..]].concat(),        // white space
            [&b":A 1"[..], &run(b','), &b"1"[..]].concat(),
            [&b":A"[..], &run(b';')].concat(),
            [&b":A #9"[..], &run(b'9')].concat(),                // block length field
            [&run(b':')[..], &b"A"[..]].concat(),
            // leading zeros in every numeric field (the value stays small, the digit count does not)
            [&b":A #H"[..], &run(b'0'), &b"1F"[..]].concat(),
            [&b":A #B"[..], &run(b'0'), &b"101"[..]].concat(),
            [&b":A #q"[..], &run(b'0'), &b"7"[..]].concat(),
            [&b":A "[..], &run(b'0'), &b"7"[..]].concat(),
            [&b":A -"[..], &run(b'0'), &b".5"[..]].concat(),
            [&b":A 1e"[..], &run(b'0'), &b"2"[..]].concat(),
            [&b":A 1E-"[..], &run(b'0'), &b"1"[..]].concat(),
            [&b":A #2"[..], &run(b'0')].concat(),
            [&b":OUTP"[..], &run(b'0'), &b"1 1"[..]].concat(),   // numeric suffix of a mnemonic
            [&b":A (@"[..], &run(b'0'), &b"1!"[..], &run(b'0'), &b"2)"[..]].concat(),
            [&b":A ("[..], &run(b'0'), &b"1:"[..], &run(b'0'), &b"2)"[..]].concat(),
        ];
        for t in templates {
            long.push(Case::Fixed { bytes: B(t), plans: vec![] });
        }
        let rep = |pat: &[u8]| -> Vec<u8> { pat.iter().cycle().take(*n * pat.len()).copied().collect() };
        for (pre, pat, post) in [(&b"@"[..], &b"1!"[..], &b"1"[..]), (b"@", b"1,", b"1"), (b"@", b"1:", b"1"), (b"", b"1,", b"1"), (b"", b"1:2,", b"3"), (b"@", b"'a',", b"1")] {
            long.push(Case::List { bytes: B([pre, &rep(pat), post].concat()) });
            // the same list as a parameter of a message
            long.push(Case::Fixed { bytes: B([&b":A ("[..], pre, &rep(pat), post, &b")"[..]].concat()), plans: vec![] });
        }
        for (pre, pat, post) in [(&b":A "[..], &b"1,"[..], &b"1"[..]), (b"", b":A;", b":A"), (b"", b"*X?;", b"*X?"), (b":B", b":C", b":D"), (b":A ", b"'x',", b"'y'"), (b":A ", b"(1),", b"(2)")] {
            long.push(Case::Fixed { bytes: B([pre, &rep(pat), post].concat()), plans: vec![] });
        }
        long.push(Case::List { bytes: B([&b"@"[..], &run(b'1')].concat()) });
        long.push(Case::List { bytes: B([&b"@1"[..], &run(b'!')].concat()) });
        long.push(Case::List { bytes: B(run(b'1')) });
        long.push(Case::List { bytes: B([&b"@'"[..], &run(b'p'), &b"'"[..]].concat()) });
    }
    e.fixed("long-runs", long, check);
    e.proptest("mutated-messages-fixed-tree", e.tier.pick(150_000, 5_000_000), fixed_case, check);
    e.proptest("mutated-messages-generated-trees", e.tier.pick(100_000, 3_000_000), generated_case, check);
    e.proptest("raw-bytes", e.tier.pick(150_000, 5_000_000), raw_case, check);
    e.proptest("mutated-list-expressions", e.tier.pick(400_000, 10_000_000), mutated_list_case, check);
    // every byte prefix of generated messages (truncated strings, blocks, headers ...)
    let n_msgs = e.tier.pick(3_000usize, 60_000);
    let msgs: Vec<Vec<u8>> = crate::engine::sample_strategy(&fixed_message(any::<bool>().boxed(), 4, 4, true, true), crate::engine::seed_bytes(e.seed, "C01", "prefix-pool", 0), n_msgs).into_iter().map(|m| m.render().bytes).filter(|b| b.len() <= 400).collect();
    let msgs_ref = &msgs;
    e.enumerate::<Case, _, _>(
        "every-prefix-of-generated-messages",
        msgs.len() as u64,
        move |part, f| {
            let m = &msgs_ref[part as usize];
            for k in 0..=m.len() {
                if !f(Case::Fixed { bytes: B(m[..k].to_vec()), plans: vec![] }) {
                    return;
                }
            }
        },
        check,
    );
    // all strings over the class alphabet
    // (the 19^7 enumeration runs on the release build only; the checked build keeps 19^6)
    let p = Partitioned { alpha: CLASS_ALPHABET, max_len: if cfg!(debug_assertions) { 6 } else { e.tier.pick(6, 7) }, prefix_len: 2 };
    let pr = &p;
    e.enumerate::<Case, _, _>("all-strings-over-class-alphabet", p.parts(), move |part, f| pr.run(part, &mut |s| f(Case::Class { bytes: B(s.to_vec()) })), check);
    // all strings over the list alphabet
    let pl = Partitioned { alpha: crate::props::c19::LIST_ALPHABET, max_len: if cfg!(debug_assertions) { e.tier.pick(6, 7) } else { e.tier.pick(6, 8) }, prefix_len: 2 };
    let plr = &pl;
    e.enumerate::<Case, _, _>("all-strings-over-list-alphabet", pl.parts(), move |part, f| plr.run(part, &mut |s| f(Case::List { bytes: B(s.to_vec()) })), check);
    if e.tier == crate::engine::Tier::Thorough {
        e.fuzz("fuzz-c01_run", "c01_run", 6_000_000, |b| Case::Class { bytes: B(b.to_vec()) }, check);
        e.fuzz("fuzz-c01_lists", "c01_lists", 6_000_000, |b| Case::List { bytes: B(b.to_vec()) }, check);
    }
    let _ = fail_unused;
}

#[allow(dead_code)]
fn fail_unused() -> CheckResult {
    fail!("unused", "unused")
}
