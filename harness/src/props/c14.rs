//! C14 — every error code maps to the ESR bit of its IEEE 488.2 class.
use crate::bytes::escape;
use crate::conv::{IntTy, Target};
use crate::engine::{CheckResult, Engine, Obs, PropertyMeta};
use crate::fixtree::{fixed_message, FIXTREE};
use crate::gen::msg::Msg;
use crate::model::esr::{class_bit, is_command_error, is_execution_error};
use crate::rec::{LogDev, Pull, PullAs, UnitPlan};
use crate::{ensure, fail};
use arrayvec::ArrayVec;
use proptest::prelude::*;
use scpi::error::{Error, ErrorCode};
use scpi::Context;
use serde::{Deserialize, Serialize};

pub fn meta() -> PropertyMeta {
    PropertyMeta {
        id: "C14",
        level: "exploration",
        rule: "all 65536 i16 error numbers through Error::custom(..).esr_mask(), ErrorCode::Custom(..).esr_mask() and ErrorCode::get_error (exhaustive); plus a labelled stream of errors produced by lexing, dispatch and conversion of generated faulty messages whose class is known by construction; malformed channel lists (EVERY string of up to 9 (11) characters over 1 2 ! : , and up to 10 (13) over 1 ! : , and up to 8 (9) over 1 ! : , - + after the '@'; grammar-generated lists after 1..2 single-character mutations) iterated and converted to the tuple type of each spec's own dimension count: every error raised is a command error. Non-trivial: a code within 1 of a century boundary, positive, or below -899; or a generated fault whose error was produced by the library.",
        assumptions: &[
            "class table is transcribed from the property statement (IEEE 488.2 11.5.1.1, SCPI-99 21.8)",
            "no independent list of all standard error numbers is asserted; only get_error(c)=Some(e) => e.get_code()==c and presence of the class representatives",
        ],
        run,
    }
}

fn check_code(code: &i32, obs: &Obs) -> CheckResult {
    let c = *code as i16;
    let want = class_bit(c);
    let boundary = {
        let m = (c as i32).rem_euclid(100);
        m == 0 || m == 1 || m == 99
    };
    obs.nontrivial_if(boundary || c > 0 || c < -899, &c);
    obs.label_if(c > 0, "positive");
    obs.label_if(c < -899, "below -899");
    obs.label_if(boundary, "century boundary +-1");
    let got = Error::custom(c, b"custom").esr_mask();
    ensure!(got == want, "esr-mask", "Error::custom({c}).esr_mask() = {got:#04x}, class bit is {want:#04x}");
    let got = ErrorCode::Custom(c, b"custom").esr_mask();
    ensure!(got == want, "esr-mask", "ErrorCode::Custom({c}).esr_mask() = {got:#04x}, class bit is {want:#04x}");
    let got = Error::custom(c, b"custom").extended(b"ext").esr_mask();
    ensure!(got == want, "esr-mask", "extended Error::custom({c}).esr_mask() = {got:#04x}, class bit is {want:#04x}");
    ensure!(Error::custom(c, b"m").get_code() == c, "custom-code", "Error::custom({c}).get_code() = {}", Error::custom(c, b"m").get_code());
    match ErrorCode::get_error(c) {
        Some(e) => {
            obs.label("standard code");
            ensure!(e.get_code() == c, "lookup-code", "get_error({c}) yields an error reporting code {}", e.get_code());
            ensure!(e.esr_mask() == want, "esr-mask", "get_error({c}).esr_mask() = {:#04x}, class bit is {want:#04x}", e.esr_mask());
            ensure!(Error::new(e).esr_mask() == want && Error::new(e).get_code() == c, "esr-mask", "Error::new(get_error({c})) disagrees");
            let m = e.get_message();
            ensure!(!m.is_empty() && m.iter().all(|b| b.is_ascii() && *b != b'"' && *b >= 0x20), "lookup-message",
                "get_error({c}) message {:?} is empty or not plain 7-bit text", String::from_utf8_lossy(m));
        }
        None => {
            if matches!(c, 0 | -100 | -200 | -300 | -400 | -500 | -600 | -700 | -800) {
                fail!("lookup-missing", "get_error({c}) is None for a class representative");
            }
        }
    }
    Ok(())
}

#[derive(Clone, Debug, Serialize, Deserialize, Hash)]
pub enum Fault {
    /// a lexical corruption of a well-formed message (command error)
    Lexical { msg: Msg, op: u8, pos: u32, byte: u8 },
    /// `:A <datum>` pulled with a conversion that must reject it
    Typed { datum: String, pull: PullAs, execution: bool },
    /// header faults and arity faults (command error)
    Header { text: String },
    /// a response that does not fit the buffer (execution error -225)
    Buffer { cap: u8 },
    /// a response block whose length the 9-digit header field cannot express (a value fault)
    BlockTooLong { len: u32 },
}

fn check_fault(f: &Fault, obs: &Obs) -> CheckResult {
    let (bytes, plan, want_exec): (Vec<u8>, UnitPlan, bool) = match f {
        Fault::Lexical { msg, op, pos, byte } => {
            let Some(c) = crate::props::c04::corrupt(msg, *op, *pos, *byte) else { fail!("harness-corrupt", "no corruption applies") };
            obs.label("fault: lexical");
            (c.bytes, UnitPlan::greedy(), false)
        }
        Fault::Typed { datum, pull, execution } => {
            obs.label(if *execution { "fault: value (range / not in set)" } else { "fault: element type" });
            (format!(":A {datum}").into_bytes(), UnitPlan { pulls: vec![Pull { optional: false, as_: *pull }], ..Default::default() }, *execution)
        }
        Fault::Header { text } => {
            obs.label("fault: header / arity");
            (text.clone().into_bytes(), UnitPlan::default(), false)
        }
        Fault::BlockTooLong { len } => {
            obs.label("fault: response block too long for its length field");
            (b":A?".to_vec(), UnitPlan { respond: vec![crate::rec::RespDatum::ZeroBlock(*len)], ..Default::default() }, true)
        }
        Fault::Buffer { cap } => {
            obs.label("fault: response buffer exhausted");
            let mut dev = LogDev::default();
            dev.default_plan = UnitPlan { respond: vec![crate::rec::RespDatum::Str("0123456789".into())], ..Default::default() };
            let mut ctx = Context::default();
            // every capacity below the full response "0123456789";"0123456789"\n (26 bytes)
            struct V<'a>(&'a mut LogDev);
            impl<'a> crate::cap::CapVisitor for V<'a> {
                type Out = Result<(), Error>;
                fn visit<const N: usize>(&mut self) -> Self::Out {
                    let mut ctx = Context::default();
                    FIXTREE.run(b":A?;:A?", self.0, &mut ctx, &mut ArrayVec::<u8, N>::new())
                }
            }
            let _ = &mut ctx;
            let res = crate::cap::dispatch((*cap % 26) as usize, &mut V(&mut dev)).unwrap();
            obs.nontrivial(f);
            return match res {
                Err(e) => judge_error(&e, true, "response buffer exhausted", obs),
                Ok(()) => fail!("fault-accepted", "a 26-byte response fitted a buffer of {} bytes", cap % 26),
            };
        }
    };
    obs.nontrivial(f);
    let mut dev = LogDev::default();
    dev.default_plan = plan;
    let mut ctx = Context::default();
    let mut resp: Vec<u8> = Vec::new();
    match FIXTREE.run(&bytes, &mut dev, &mut ctx, &mut resp) {
        Ok(()) => fail!("fault-accepted", "{:?}: a faulty message executes successfully", escape(&bytes)),
        Err(e) => judge_error(&e, want_exec, &escape(&bytes), obs),
    }
}

fn judge_error(e: &Error, want_exec: bool, what: &str, _obs: &Obs) -> CheckResult {
    let c = e.get_code();
    if want_exec {
        ensure!(is_execution_error(c), "library-error-class", "{what:?}: a value fault is reported as {c}, which is not an execution error (-200..-299)");
    } else {
        ensure!(is_command_error(c), "library-error-class", "{what:?}: a syntax / header / type fault is reported as {c}, which is not a command error (-100..-199)");
    }
    ensure!(e.esr_mask() == class_bit(c), "esr-mask", "{what:?}: error {c} has esr_mask {:#04x}, class bit {:#04x}", e.esr_mask(), class_bit(c));
    match ErrorCode::get_error(c) {
        Some(s) => ensure!(s.get_code() == c, "lookup-code", "get_error({c}) reports {}", s.get_code()),
        None => fail!("lookup-missing", "{what:?}: the library raised {c}, but get_error({c}) is None"),
    }
    Ok(())
}

fn fault_strategy() -> impl Strategy<Value = Fault> {
    let typed = prop_oneof![
        // element type not accepted by the target: command error
        (prop_oneof![Just("\"str\""), Just("'x'"), Just("(1,2)"), Just("#13abc"), Just("XYZ"), Just("1 V"), Just("1.5KHZ")], prop_oneof![Just(PullAs::To(Target::Int(IntTy::I32))), Just(PullAs::To(Target::Int(IntTy::U8))), Just(PullAs::DataI32), Just(PullAs::To(Target::F64)), Just(PullAs::DataF64)])
            .prop_map(|(d, pull)| Fault::Typed { datum: d.to_string(), pull, execution: false }),
        (prop_oneof![Just("1"), Just("ON"), Just("#H1F"), Just("(1)"), Just("#11a")], prop_oneof![Just(PullAs::To(Target::Bytes)), Just(PullAs::DataBytes), Just(PullAs::To(Target::Expr)), Just(PullAs::To(Target::Arb))])
            .prop_filter("kind must mismatch", |(d, p)| !((*d == "(1)" && *p == PullAs::To(Target::Expr)) || (*d == "#11a" && *p == PullAs::To(Target::Arb))))
            .prop_map(|(d, pull)| Fault::Typed { datum: d.to_string(), pull, execution: false }),
        (prop_oneof![Just("\"s\""), Just("1"), Just("(1)")], prop_oneof![Just(PullAs::Enum), Just(PullAs::To(Target::Chr))]).prop_map(|(d, pull)| Fault::Typed { datum: d.to_string(), pull, execution: false }),
        // an element of a kind that a Boolean / AUTO / unit quantity / numeric_value never accepts: a data-type fault
        (prop_oneof![Just("\"ON\""), Just("'1'"), Just("(1)"), Just("#12ON"), Just("#H1"), Just("1 S"), Just("#210ONCEONCEON")], prop_oneof![Just(PullAs::Auto), Just(PullAs::To(Target::Bool)), Just(PullAs::DataBool)])
            .prop_map(|(d, pull)| Fault::Typed { datum: d.to_string(), pull, execution: false }),
        (prop_oneof![Just("\"1 V\""), Just("'V'"), Just("(1)"), Just("#111")], prop_oneof![Just(PullAs::Volt), Just(PullAs::Seconds), Just(PullAs::NumericF32), Just(PullAs::NumericU8), Just(PullAs::AmplitudeVolt), Just(PullAs::DbPower)])
            .prop_map(|(d, pull)| Fault::Typed { datum: d.to_string(), pull, execution: false }),
        // value faults: execution error
        (prop_oneof![Just("1e30".to_string()), Just("-1e30".to_string()), Just("2147483648".to_string()), Just("-2147483649".to_string()), Just("#HFFFFFFFFF".to_string()), (2147483648i64..1i64 << 40).prop_map(|v| v.to_string())], prop_oneof![Just(PullAs::DataI32), Just(PullAs::To(Target::Int(IntTy::I32)))])
            .prop_map(|(datum, pull)| Fault::Typed { datum, pull, execution: true }),
        (prop_oneof![Just("256".to_string()), Just("-1".to_string()), Just("255.6".to_string()), Just("#H100".to_string()), (256i32..100000).prop_map(|v| v.to_string())], Just(PullAs::To(Target::Int(IntTy::U8)))).prop_map(|(datum, pull)| Fault::Typed { datum, pull, execution: true }),
        ("[A-Z]{5,9}", prop_oneof![Just(PullAs::Enum), Just(PullAs::To(Target::Bool)), Just(PullAs::Auto)]).prop_map(|(datum, pull)| Fault::Typed { datum, pull, execution: true }),
        (prop_oneof![Just("1 XYZ"), Just("1 HZ"), Just("2.5 KOHM")], Just(PullAs::Volt)).prop_map(|(d, pull)| Fault::Typed { datum: d.to_string(), pull, execution: true }),
    ];
    let header = prop_oneof![
        Just(":FOO"), Just(":A:B"), Just(":B:Q"), Just("*ZZZ"), Just(":OUTP3"), Just(":A 1"), Just(":A 1,2"), Just(":B:C:D 'x'"), Just(":A;:ZZ"), Just("A::B"), Just(":A,1"), Just("*X:A"),
    ]
    .prop_map(|t| Fault::Header { text: t.to_string() });
    prop_oneof![
        6 => (fixed_message(any::<bool>().boxed(), 4, 4, false, false), 0u8..21, any::<u32>(), any::<u8>()).prop_map(|(msg, op, pos, byte)| Fault::Lexical { msg, op, pos, byte }),
        5 => typed,
        2 => header,
        1 => any::<u8>().prop_map(|cap| Fault::Buffer { cap }),
        1 => prop_oneof![Just(1_000_000_000u32), Just(1_000_000_001), Just(2_147_483_648), Just(4_294_967_295)].prop_map(|len| Fault::BlockTooLong { len }),
    ]
}

/// A channel list text (with its leading '@') that is NOT well formed: whatever error the
/// library raises while the list is iterated and its specs are converted is the report of
/// a syntax fault, hence a command error.
#[derive(Clone, Debug, Serialize, Deserialize, Hash)]
pub struct ListFault {
    pub text: crate::bytes::B,
}

fn check_list_fault(c: &ListFault, obs: &Obs) -> CheckResult {
    use scpi::parser::expression::channel_list::{ChannelList, ChannelSpec, Token as Ct};
    let text = &c.text[..];
    // numbers stay far below every integer bound, so no error can be a value fault
    let longest_run = text.split(|b| !b.is_ascii_digit()).map(|r| r.len()).max().unwrap_or(0);
    if longest_run > 9 {
        obs.label("list: out of scope (long number)");
        return Ok(());
    }
    if matches!(crate::model::list::channel_list(text), crate::model::list::Verdict::WellFormed(_)) {
        obs.label("list: well formed");
        return Ok(());
    }
    let Some(it) = ChannelList::new(text) else {
        obs.label("list: not a channel list");
        return Ok(());
    };
    let mut errors: Vec<(&'static str, Error)> = Vec::new();
    // a spec is converted to the tuple type of its own dimension count (what a mismatch of the
    // count is reported as is not part of the claim)
    fn convert(s: ChannelSpec, errors: &mut Vec<(&'static str, Error)>) {
        match s.dimension() {
            1 => {
                if let Err(e) = isize::try_from(s) {
                    errors.push(("conversion to isize", e));
                }
                if let Err(e) = usize::try_from(s) {
                    // (a negative value is a value fault; the dimension iterator is read up to its first error only)
                    if !s.into_iter().map_while(|d| d.ok()).any(|v| v < 0) {
                        errors.push(("conversion to usize", e));
                    }
                }
            }
            2 => {
                if let Err(e) = <(isize, isize)>::try_from(s) {
                    errors.push(("conversion to (isize, isize)", e));
                }
            }
            3 => {
                if let Err(e) = <(isize, isize, isize)>::try_from(s) {
                    errors.push(("conversion to (isize, isize, isize)", e));
                }
            }
            _ => {}
        }
    }
    for (k, item) in it.enumerate() {
        if k > text.len() + 2 {
            break;
        }
        match item {
            Ok(Ct::ChannelSpec(s)) => convert(s, &mut errors),
            Ok(Ct::ChannelRange(a, b)) => {
                convert(a, &mut errors);
                convert(b, &mut errors);
            }
            Ok(_) => {}
            Err(e) => {
                errors.push(("iteration", e.into()));
                break;
            }
        }
    }
    obs.label(if errors.is_empty() { "list: malformed, no error raised on this path" } else { "fault: list syntax" });
    obs.nontrivial_if(!errors.is_empty(), c);
    for (what, e) in &errors {
        ensure!(is_command_error(e.get_code()) && e.esr_mask() == 0x20, "list-syntax-class", "channel list ({}): {what} fails with {} (ESR mask {:#04x}); a malformed list is a syntax fault, a command error", escape(text), e.get_code(), e.esr_mask());
    }
    Ok(())
}

fn list_fault_strategy() -> impl Strategy<Value = ListFault> {
    let list_byte = || prop::sample::select(b"!:,@-+'0123456789 ".to_vec());
    let m = prop_oneof![
        3 => (any::<u32>(), list_byte()).prop_map(|(p, v)| (0u8, p, v)),
        3 => (any::<u32>(), list_byte()).prop_map(|(p, v)| (1u8, p, v)),
        4 => any::<u32>().prop_map(|p| (2u8, p, 0u8)),
    ];
    (crate::props::c19::case_strategy().prop_filter("channel list", |c| c.channel), proptest::collection::vec(m, 1..3)).prop_map(|(c, muts)| {
        let mut b = c.text.0.clone();
        for (kind, p, v) in muts {
            if b.len() <= 1 {
                break;
            }
            // never touch the leading '@'
            let i = 1 + ((p as u64 * (b.len() as u64 - 1)) >> 32) as usize;
            match kind {
                0 => b.insert(i, v),
                1 => b[i] = v,
                _ => {
                    b.remove(i);
                }
            }
        }
        ListFault { text: crate::bytes::B(b) }
    })
}

fn run(e: &Engine) {
    e.enumerate::<i32, _, _>(
        "codes",
        16,
        |part, f| {
            let lo = -32768 + (part as i32) * 4096;
            for c in lo..lo + 4096 {
                if !f(c) {
                    return;
                }
            }
        },
        check_code,
    );
    // errors the library itself raises for faults of known kind
    e.proptest("labelled-error-stream", e.tier.pick(120_000, 5_000_000), fault_strategy, check_fault);
    // malformed channel lists: every string over list punctuation and two digits (up to 9 / 11 characters after
    // the '@'), and grammar-generated lists after one or two single-character mutations
    let alpha5 = crate::gen::enumstr::Partitioned { alpha: b"1!:,2", max_len: e.tier.pick(9, 11), prefix_len: 3 };
    let a5 = &alpha5;
    e.enumerate::<ListFault, _, _>("every-short-channel-list", alpha5.parts(), move |part, f| a5.run(part, &mut |s| f(ListFault { text: crate::bytes::B([b"@", s].concat()) })), check_list_fault);
    let alpha4 = crate::gen::enumstr::Partitioned { alpha: b"1!:,", max_len: e.tier.pick(10, 13), prefix_len: 3 };
    let a4 = &alpha4;
    e.enumerate::<ListFault, _, _>("every-short-channel-list-one-digit", alpha4.parts(), move |part, f| a4.run(part, &mut |s| f(ListFault { text: crate::bytes::B([b"@", s].concat()) })), check_list_fault);
    let alpha6 = crate::gen::enumstr::Partitioned { alpha: b"1!:,-+", max_len: e.tier.pick(8, 9), prefix_len: 3 };
    let a6 = &alpha6;
    e.enumerate::<ListFault, _, _>("every-short-channel-list-with-signs", alpha6.parts(), move |part, f| a6.run(part, &mut |s| f(ListFault { text: crate::bytes::B([b"@", s].concat()) })), check_list_fault);
    e.proptest("mutated-channel-lists", e.tier.pick(200_000, 5_000_000), list_fault_strategy, check_list_fault);
    for l in ["fault: lexical", "fault: element type", "fault: value (range / not in set)", "fault: header / arity", "fault: response buffer exhausted"] {
        if !e.replay_only && !e.failed() && e.label_count(l) < 1000 {
            e.harness_error(format!("generator unhealthy: only {} labelled {l:?}", e.label_count(l)));
        }
    }
}
