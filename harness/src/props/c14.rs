//! C14 — every error code maps to the ESR bit of its IEEE 488.2 class.
use crate::engine::{CheckResult, Engine, Obs, PropertyMeta};
use crate::model::esr::class_bit;
use crate::{ensure, fail};
use scpi::error::{Error, ErrorCode};

pub fn meta() -> PropertyMeta {
    PropertyMeta {
        id: "C14",
        level: "exploration",
        rule: "all 65536 i16 error numbers through Error::custom(..).esr_mask(), ErrorCode::Custom(..).esr_mask() and ErrorCode::get_error (exhaustive); plus a labelled stream of errors produced by lexing, dispatch and conversion of generated faulty messages whose class is known by construction. Non-trivial: a code within 1 of a century boundary, positive, or below -899; or a generated fault whose error was produced by the library.",
        assumptions: &[
            "class table is transcribed from the property statement (IEEE 488.2 11.5.1.1, SCPI-99 21.8)",
            "no independent list of all standard error numbers is asserted; only get_error(c)=Some(e) => e.get_code()==c and presence of the class representatives",
        ],
        run,
    }
}

fn check_code(code: &i32, obs: &Obs) -> CheckResult {
    let c = *code as i16;
    let want = class_bit(c);
    let boundary = {
        let m = (c as i32).rem_euclid(100);
        m == 0 || m == 1 || m == 99
    };
    obs.nontrivial_if(boundary || c > 0 || c < -899, &c);
    obs.label_if(c > 0, "positive");
    obs.label_if(c < -899, "below -899");
    obs.label_if(boundary, "century boundary +-1");
    let got = Error::custom(c, b"custom").esr_mask();
    ensure!(got == want, "esr-mask", "Error::custom({c}).esr_mask() = {got:#04x}, class bit is {want:#04x}");
    let got = ErrorCode::Custom(c, b"custom").esr_mask();
    ensure!(got == want, "esr-mask", "ErrorCode::Custom({c}).esr_mask() = {got:#04x}, class bit is {want:#04x}");
    let got = Error::custom(c, b"custom").extended(b"ext").esr_mask();
    ensure!(got == want, "esr-mask", "extended Error::custom({c}).esr_mask() = {got:#04x}, class bit is {want:#04x}");
    ensure!(Error::custom(c, b"m").get_code() == c, "custom-code", "Error::custom({c}).get_code() = {}", Error::custom(c, b"m").get_code());
    match ErrorCode::get_error(c) {
        Some(e) => {
            obs.label("standard code");
            ensure!(e.get_code() == c, "lookup-code", "get_error({c}) yields an error reporting code {}", e.get_code());
            ensure!(e.esr_mask() == want, "esr-mask", "get_error({c}).esr_mask() = {:#04x}, class bit is {want:#04x}", e.esr_mask());
            ensure!(Error::new(e).esr_mask() == want && Error::new(e).get_code() == c, "esr-mask", "Error::new(get_error({c})) disagrees");
            let m = e.get_message();
            ensure!(!m.is_empty() && m.iter().all(|b| b.is_ascii() && *b != b'"' && *b >= 0x20), "lookup-message",
                "get_error({c}) message {:?} is empty or not plain 7-bit text", String::from_utf8_lossy(m));
        }
        None => {
            if matches!(c, 0 | -100 | -200 | -300 | -400 | -500 | -600 | -700 | -800) {
                fail!("lookup-missing", "get_error({c}) is None for a class representative");
            }
        }
    }
    Ok(())
}

fn run(e: &Engine) {
    e.enumerate::<i32, _, _>(
        "codes",
        16,
        |part, f| {
            let lo = -32768 + (part as i32) * 4096;
            for c in lo..lo + 4096 {
                if !f(c) {
                    return;
                }
            }
        },
        check_code,
    );
}
