//! C04 — lexing is faithful: element boundaries and types follow IEEE 488.2 section 7.
use crate::bytes::{escape, B};
use crate::engine::{CheckResult, Engine, Failure, Obs, PropertyMeta};
use crate::fixtree::{fixed_header, FIXTREE};
use crate::gen::msg::*;
use crate::model::esr::is_command_error;
use crate::rec::{LogDev, UnitPlan};
use crate::{ensure, fail};
use proptest::prelude::*;
use scpi::parser::tokenizer::Tokenizer;
use scpi::Context;
use serde::{Deserialize, Serialize};

pub fn meta() -> PropertyMeta {
    PropertyMeta {
        id: "C04",
        level: "exploration",
        rule: "(a) messages generated from the 488.2 grammar (1..6 units, free-form and tree headers, 0..5 data of all seven kinds per unit, separators nested in strings/blocks/expressions, every white-space placement of the sound grammar, all seven endings) rendered together with their expected element sequence; (b) each listed single-point corruption applied at a generated position (13-character mnemonic / character datum / suffix, unterminated string, cut or malformed block, lone #, byte >= 0x80 in header / string / expression / between elements, misplaced ':' and ',', ';' inside an expression, missing separator, datum glued to a letter or quote); (c) all strings up to length 6 (quick) / 7 (thorough) over a 19-symbol class alphabet judged by an independent recogniser. Oracle: by construction (a, b) / reference recogniser (c). Non-trivial: a message with a data element embedding a separator byte, or a 12-character element, or a block, or any corruption.",
        assumptions: &[
            "white space is SP, HT, CR, FF; other 488.2 control-code white space, empty message units, a suffix glued to the number that starts like an exponent, '#' inside expressions are not generated",
            "for a byte inserted inside an element the part of that element before the byte may be emitted before the error (streaming lexer)",
            "known finding (not repaired): white space around the exponent marker, confined to the sub-campaign exp-ws",
        ],
        run,
    }
}

#[derive(Clone, Debug, Serialize, Deserialize, Hash)]
pub enum Case {
    /// well-formed message, lexer only
    Lex { msg: Msg },
    /// well-formed message with headers of the fixed tree: what greedy handlers receive
    Run { msg: Msg },
    /// corrupted message
    Corrupt { msg: Msg, op: u8, pos: u32, byte: u8 },
    /// arbitrary bytes judged by the reference recogniser
    Bytes { bytes: B },
    /// white space around the exponent marker (known finding)
    ExpWs { mantissa: String, ws1: String, e: char, ws2: String, exp: String },
}

fn lex_all(bytes: &[u8]) -> (Vec<ETok>, Option<i16>) {
    lex_with(Tokenizer::new(bytes), bytes.len())
}

fn lex_with(tokenizer: Tokenizer, len: usize) -> (Vec<ETok>, Option<i16>) {
    let bytes_len = len;
    let mut out = Vec::new();
    for (n, t) in tokenizer.enumerate() {
        if n > bytes_len + 1 {
            return (out, Some(i16::MIN));
        }
        match t {
            Ok(t) => out.push(ETok::from(t)),
            Err(e) => return (out, Some(e.get_code())),
        }
    }
    (out, None)
}

fn first_difference(got: &[ETok], want: &[ETok]) -> String {
    for i in 0..got.len().max(want.len()) {
        if got.get(i) != want.get(i) {
            return format!("element {i}: lexer {:?}, 488.2 {:?}", got.get(i), want.get(i));
        }
    }
    "none".into()
}

fn label_msg(msg: &Msg, obs: &Obs) -> bool {
    let mut nt = false;
    for u in &msg.units {
        for d in &u.data {
            obs.label(d.kind_label());
            obs.label("data element");
            if d.embeds_separator() {
                obs.label("data element embedding a separator byte");
                nt = true;
            }
            if d.has_len12() {
                obs.label("12-character element");
                nt = true;
            }
            if matches!(d, Datum::Block { .. }) {
                nt = true;
            }
        }
        if u.header.path.iter().any(|m| m.len() == 12) {
            obs.label("12-character element");
            obs.label_if(u.header.common, "12-character common mnemonic");
            nt = true;
        }
        obs.label_if(u.header.common, "common header");
    }
    obs.label_if(!msg.lead_ws.is_empty(), "leading white space");
    nt
}

fn check_lex(msg: &Msg, obs: &Obs, key: &Case) -> CheckResult {
    let r = msg.render();
    let nt = label_msg(msg, obs);
    obs.label("well-formed message");
    obs.nontrivial_if(nt, key);
    // the two references (AST renderer, recogniser) must not contradict each other
    match crate::model::lex488::recognise(&r.bytes) {
        crate::model::lex488::Verdict::WellFormed(t) => ensure!(t == r.tokens, "harness-reference-disagreement", "{:?}: recogniser {}", escape(&r.bytes), first_difference(&t, &r.tokens)),
        crate::model::lex488::Verdict::Listed { what, .. } => fail!("harness-reference-disagreement", "{:?}: generated as well-formed, recogniser says {what}", escape(&r.bytes)),
        crate::model::lex488::Verdict::Unknown => obs.label("well-formed message outside the recogniser's subset"),
    }
    let (got, err) = lex_all(&r.bytes);
    let sig = if !msg.lead_ws.is_empty() && got.first() == Some(&ETok::HeaderSep) {
        "lead-ws"
    } else if msg.units.iter().any(|u| u.header.common && u.header.path[0].len() == 12) && err == Some(-112) {
        "common-12"
    } else {
        "lex-mismatch"
    };
    if let Some(code) = err {
        fail!(sig, "{:?}: lexer stops with {code} after {} elements; first difference {}", escape(&r.bytes), got.len(), first_difference(&got, &r.tokens));
    }
    ensure!(got == r.tokens, sig, "{:?}: {}", escape(&r.bytes), first_difference(&got, &r.tokens));
    Ok(())
}

fn check_run(msg: &Msg, obs: &Obs, key: &Case) -> CheckResult {
    let r = msg.render();
    let nt = label_msg(msg, obs);
    obs.label("well-formed message run on the fixed tree");
    obs.nontrivial_if(nt, key);
    let mut dev = LogDev::default();
    dev.default_plan = UnitPlan::greedy();
    let mut ctx = Context::default();
    let mut resp: Vec<u8> = Vec::new();
    let res = FIXTREE.run(&r.bytes, &mut dev, &mut ctx, &mut resp);
    if let Err(e) = res {
        fail!("run-rejected", "{:?}: well-formed message fails with {}", escape(&r.bytes), e.get_code());
    }
    ensure!(dev.calls.len() == msg.units.len(), "run-calls", "{:?}: {} handlers ran for {} units", escape(&r.bytes), dev.calls.len(), msg.units.len());
    for (i, (u, c)) in msg.units.iter().zip(dev.calls.iter()).enumerate() {
        let want: Vec<ETok> = u.data.iter().map(|d| d.expected()).collect();
        ensure!(c.offered == want, "handler-tokens", "{:?}: unit {i} handler received {:?}, the unit's data are {:?}", escape(&r.bytes), c.offered, want);
        ensure!(Some(c.leaf) == crate::fixtree::resolve(&u.header) && c.query == u.header.query, "handler-identity", "{:?}: unit {i} ran leaf {} query={}", escape(&r.bytes), c.leaf, c.query);
    }
    Ok(())
}

pub struct Corrupted {
    pub bytes: Vec<u8>,
    pub prefix: Vec<ETok>,
    pub partial: Option<ETok>,
    pub what: &'static str,
    /// the corruption is only detectable by lexer + dispatcher together
    pub run_level: bool,
}

fn nth_token(tokens: &[ETok], pred: impl Fn(&ETok) -> bool, n: usize) -> usize {
    tokens.iter().enumerate().filter(|(_, t)| pred(t)).nth(n).map(|(i, _)| i).unwrap()
}

/// Apply corruption operator `op` (wrapping over the applicable ones) at a
/// position derived from `pos`.
pub fn corrupt(msg: &Msg, op: u8, pos: u32, byte: u8) -> Option<Corrupted> {
    let r = msg.render();
    let pos = pos as usize;
    let hb = 0x80 | byte; // a byte >= 0x80
    // the inserted non-ASCII text: a single high byte, or (every third time) a complete, valid UTF-8
    // sequence - "not ASCII" is the rule, not "not UTF-8"
    let utf8: &[&[u8]] = &[b"\xC2\xB5", b"\xC3\xA9", b"\xE2\x82\xAC", b"\xF0\x9F\x98\x80", b"\xCE\xA9\xCE\xA9"];
    let hseq: Vec<u8> = if byte % 3 == 0 { utf8[(byte as usize / 3) % utf8.len()].to_vec() } else { vec![hb] };
    // "longer than 12": mostly 13, sometimes far longer (counters that wrap at 256 / 65536)
    let too_long: usize = match byte % 16 {
        0 => 14,
        1 => 20,
        2 => 255,
        3 => 256,
        4 => 257,
        5 => 256 + 12,
        6 => 256 + 13,
        7 => 300,
        8 => 512 + 5,
        9 => 65536 + 3,
        _ => 13,
    };
    let data: Vec<(usize, &Datum, (usize, usize, usize))> = {
        let mut v = Vec::new();
        let mut k = 0;
        for (ui, u) in msg.units.iter().enumerate() {
            for d in &u.data {
                v.push((ui, d, r.data_spans[k]));
                k += 1;
            }
        }
        v
    };
    let data_tok = |k: usize| nth_token(&r.tokens, |t| t.is_data(), k);
    let mn_tok = |k: usize| nth_token(&r.tokens, |t| matches!(t, ETok::Mnemonic(_)), k);
    let splice = |start: usize, end: usize, with: &[u8]| -> Vec<u8> {
        let mut b = r.bytes[..start].to_vec();
        b.extend_from_slice(with);
        b.extend_from_slice(&r.bytes[end..]);
        b
    };
    let pick = |n: usize| pos % n;
    let of_kind = |f: &dyn Fn(&Datum) -> bool| -> Vec<usize> { data.iter().enumerate().filter(|(_, (_, d, _))| f(d)).map(|(i, _)| i).collect() };
    const N_OPS: u8 = 21;
    for attempt in 0..N_OPS {
        let op = (op + attempt) % N_OPS;
        let c = match op {
            0 => {
                // 13-character mnemonic
                let k = pick(r.mnemonic_spans.len());
                let (s, e) = r.mnemonic_spans[k];
                let mut m = r.bytes[s..e].to_vec();
                while m.len() < too_long {
                    m.push(b'Q');
                }
                Some(Corrupted { bytes: splice(s, e, &m), prefix: r.tokens[..mn_tok(k)].to_vec(), partial: None, what: "13-character mnemonic", run_level: false })
            }
            1 => {
                let c = of_kind(&|d| matches!(d, Datum::Chr(_)));
                if c.is_empty() {
                    None
                } else {
                    let k = c[pick(c.len())];
                    let (_, s, e) = data[k].2;
                    let mut m = r.bytes[s..e].to_vec();
                    while m.len() < too_long {
                        m.push(b'q');
                    }
                    Some(Corrupted { bytes: splice(s, e, &m), prefix: r.tokens[..data_tok(k)].to_vec(), partial: None, what: "13-character character datum", run_level: false })
                }
            }
            2 => {
                let c = of_kind(&|d| matches!(d, Datum::Dec { suffix: Some(_), .. }));
                if c.is_empty() {
                    None
                } else {
                    let k = c[pick(c.len())];
                    let (_, s, e) = data[k].2;
                    let mut m = r.bytes[s..e].to_vec();
                    let sl = if let Datum::Dec { suffix: Some((_, sfx)), .. } = data[k].1 { sfx.len() } else { 0 };
                    for _ in sl..too_long {
                        m.push(b'Z');
                    }
                    Some(Corrupted { bytes: splice(s, e, &m), prefix: r.tokens[..data_tok(k)].to_vec(), partial: None, what: "13-character suffix", run_level: false })
                }
            }
            3 => {
                // unterminated string: cut the message before the closing quote
                let c = of_kind(&|d| matches!(d, Datum::Str { .. }));
                if c.is_empty() {
                    None
                } else {
                    let k = c[pick(c.len())];
                    let (_, _, e) = data[k].2;
                    Some(Corrupted { bytes: r.bytes[..e - 1].to_vec(), prefix: r.tokens[..data_tok(k)].to_vec(), partial: None, what: "unterminated string", run_level: false })
                }
            }
            4 => {
                // block cut inside its payload
                let c = of_kind(&|d| matches!(d, Datum::Block { definite: true, payload, .. } if !payload.is_empty()));
                if c.is_empty() {
                    None
                } else {
                    let k = c[pick(c.len())];
                    let (_, _, e) = data[k].2;
                    let plen = if let Datum::Block { payload, .. } = data[k].1 { payload.len() } else { 0 };
                    let cut = 1 + (pos / 7) % plen; // remove 1..=plen bytes
                    Some(Corrupted { bytes: r.bytes[..e - cut].to_vec(), prefix: r.tokens[..data_tok(k)].to_vec(), partial: None, what: "truncated block", run_level: false })
                }
            }
            5 => {
                // non-digit in the block length field
                let c = of_kind(&|d| matches!(d, Datum::Block { definite: true, .. }));
                if c.is_empty() {
                    None
                } else {
                    let k = c[pick(c.len())];
                    let (_, s, _) = data[k].2;
                    let mut b = r.bytes.clone();
                    // a letter, a sign, a blank or a dot where a length digit must be
                    b[s + 2] = [b'x', b'+', b'-', b' ', b'.', b'+'][(byte % 6) as usize];
                    Some(Corrupted { bytes: b, prefix: r.tokens[..data_tok(k)].to_vec(), partial: None, what: "malformed block length", run_level: false })
                }
            }
            6 => {
                // lone '#': cut the message after the '#' of a block / non-decimal literal
                let c = of_kind(&|d| matches!(d, Datum::Block { .. } | Datum::NonDec { .. }));
                if c.is_empty() {
                    None
                } else {
                    let k = c[pick(c.len())];
                    let (_, s, _) = data[k].2;
                    Some(Corrupted { bytes: r.bytes[..s + 1].to_vec(), prefix: r.tokens[..data_tok(k)].to_vec(), partial: None, what: "lone #", run_level: false })
                }
            }
            7 => {
                // byte >= 0x80 inside a mnemonic (not at its first position)
                let c: Vec<usize> = (0..r.mnemonic_spans.len()).filter(|k| r.mnemonic_spans[*k].1 - r.mnemonic_spans[*k].0 >= 1).collect();
                let k = c[pick(c.len())];
                let (s, e) = r.mnemonic_spans[k];
                let o = 1 + (pos / 5) % (e - s);
                let ti = mn_tok(k);
                let mut part = match &r.tokens[ti] {
                    ETok::Mnemonic(m) if m.starts_with(b"*") => b"*".to_vec(),
                    _ => vec![],
                };
                part.extend_from_slice(&r.bytes[s..s + o]);
                Some(Corrupted { bytes: splice(s + o, s + o, &hseq), prefix: r.tokens[..ti].to_vec(), partial: Some(ETok::Mnemonic(part.into())), what: "non-ASCII byte in header", run_level: false })
            }
            8 => {
                // byte >= 0x80 inside a string or an expression
                let c = of_kind(&|d| matches!(d, Datum::Str { .. } | Datum::Expr(_)));
                if c.is_empty() {
                    None
                } else {
                    let k = c[pick(c.len())];
                    let (_, s, e) = data[k].2;
                    let o = 1 + (pos / 5) % (e - s - 1); // strictly inside the delimiters
                    Some(Corrupted { bytes: splice(s + o, s + o, &hseq), prefix: r.tokens[..data_tok(k)].to_vec(), partial: None, what: "non-ASCII byte in string / expression", run_level: false })
                }
            }
            9 => {
                // byte >= 0x80 where a data element should start
                if data.is_empty() {
                    None
                } else {
                    let k = pick(data.len());
                    let (_, s, _) = data[k].2;
                    Some(Corrupted { bytes: splice(s, s, &hseq), prefix: r.tokens[..data_tok(k)].to_vec(), partial: None, what: "non-ASCII byte between elements", run_level: false })
                }
            }
            10 => {
                // ':' directly after a data element
                if data.is_empty() {
                    None
                } else {
                    let k = pick(data.len());
                    // a ':' is legal inside expressions/strings/blocks only; after the element it never is.
                    // an indefinite block swallows everything, skip it
                    if data[k].1.is_indefinite() {
                        None
                    } else {
                        let (_, _, e) = data[k].2;
                        Some(Corrupted { bytes: splice(e, e, b":"), prefix: r.tokens[..data_tok(k)].to_vec(), partial: None, what: "':' in data position", run_level: false })
                    }
                }
            }
            11 => {
                // '::' in a header
                let c: Vec<usize> = r.tokens.iter().enumerate().filter(|(i, t)| **t == ETok::Colon && *i > 0 && matches!(r.tokens[i - 1], ETok::Mnemonic(_))).map(|(i, _)| i).collect();
                if c.is_empty() {
                    None
                } else {
                    let ti = c[pick(c.len())];
                    // byte offset of that colon = end of the preceding mnemonic
                    let mk = r.tokens[..ti].iter().filter(|t| matches!(t, ETok::Mnemonic(_))).count() - 1;
                    let (_, e) = r.mnemonic_spans[mk];
                    Some(Corrupted { bytes: splice(e, e, b":"), prefix: r.tokens[..ti].to_vec(), partial: None, what: "'::' in header", run_level: false })
                }
            }
            12 => {
                // ':' after a common header
                let c: Vec<usize> = (0..msg.units.len()).filter(|u| msg.units[*u].header.common).collect();
                if c.is_empty() {
                    None
                } else {
                    let u = c[pick(c.len())];
                    let mk: usize = msg.units[..u].iter().map(|x| x.header.path.len()).sum();
                    let (_, e) = r.mnemonic_spans[mk];
                    let ti = mn_tok(mk);
                    Some(Corrupted { bytes: splice(e, e, b":Z"), prefix: r.tokens[..=ti].to_vec(), partial: None, what: "':' after a common header", run_level: false })
                }
            }
            13 => {
                // ',' in a header
                let k = pick(r.mnemonic_spans.len());
                let (_, e) = r.mnemonic_spans[k];
                Some(Corrupted { bytes: splice(e, e, b",Z"), prefix: r.tokens[..=mn_tok(k)].to_vec(), partial: None, what: "',' in header", run_level: false })
            }
            14 => {
                // doubled ','
                let c: Vec<usize> = r.tokens.iter().enumerate().filter(|(_, t)| **t == ETok::DataSep).map(|(i, _)| i).collect();
                if c.is_empty() {
                    None
                } else {
                    let n = pick(c.len());
                    let ti = c[n];
                    // the n-th DataSep precedes the data element whose index is (number of data tokens before ti)
                    let dk = r.tokens[..ti].iter().filter(|t| t.is_data()).count();
                    let (_, s, _) = data[dk].2;
                    Some(Corrupted { bytes: splice(s, s, b","), prefix: r.tokens[..ti].to_vec(), partial: None, what: "doubled ','", run_level: false })
                }
            }
            15 => {
                // ',' before the first datum of a unit
                let c: Vec<usize> = (0..data.len()).filter(|k| *k == 0 || data[*k - 1].0 != data[*k].0).collect();
                if c.is_empty() {
                    None
                } else {
                    let k = c[pick(c.len())];
                    let (_, s, _) = data[k].2;
                    Some(Corrupted { bytes: splice(s, s, b","), prefix: r.tokens[..data_tok(k)].to_vec(), partial: None, what: "',' before the first datum", run_level: false })
                }
            }
            16 => {
                // two data separated by white space only
                let c: Vec<usize> = (1..data.len())
                    .filter(|k| data[*k - 1].0 == data[*k].0)
                    .filter(|k| {
                        let (a, b) = (data[*k - 1].1, data[*k].1);
                        // "1 V" would be a number with a suffix: a legal re-reading, not generated
                        let b_first = r.bytes[data[*k].2 .1];
                        !(matches!(a, Datum::Dec { suffix: None, .. }) && (b_first.is_ascii_alphabetic() || b_first == b'/')) && !a.is_indefinite()
                            // "'a' 'b'" with identical quotes stays two strings, fine; nothing else to exclude
                            && !matches!((a, b), (Datum::Block { definite: false, .. }, _))
                    })
                    .collect();
                if c.is_empty() {
                    None
                } else {
                    let k = c[pick(c.len())];
                    let (_, _, e0) = data[k - 1].2;
                    let (_, s1, _) = data[k].2;
                    Some(Corrupted { bytes: splice(e0, s1, b" "), prefix: r.tokens[..data_tok(k - 1)].to_vec(), partial: None, what: "missing ',' between data", run_level: false })
                }
            }
            17 => {
                // data element immediately followed by a letter (kinds for which that is not a longer element)
                let c = of_kind(&|d| matches!(d, Datum::Str { .. } | Datum::Expr(_) | Datum::Block { definite: true, .. } | Datum::NonDec { .. }));
                if c.is_empty() {
                    None
                } else {
                    let k = c[pick(c.len())];
                    let (_, _, e) = data[k].2;
                    Some(Corrupted { bytes: splice(e, e, b"z"), prefix: r.tokens[..data_tok(k)].to_vec(), partial: None, what: "datum glued to a letter", run_level: false })
                }
            }
            18 => {
                // data element immediately followed by a quoted string
                if data.is_empty() {
                    None
                } else {
                    let k = pick(data.len());
                    if data[k].1.is_indefinite() {
                        None
                    } else {
                        let (_, _, e) = data[k].2;
                        // a string followed by its own quote would be a doubled delimiter: use the other quote
                        let q: &[u8] = match data[k].1 {
                            Datum::Str { quote: b'"', .. } => b"'x'",
                            _ => b"\"x\"",
                        };
                        Some(Corrupted { bytes: splice(e, e, q), prefix: r.tokens[..data_tok(k)].to_vec(), partial: None, what: "datum glued to a quote", run_level: false })
                    }
                }
            }
            19 => {
                // ';' inside a parenthesised expression (488.2 7.7.7.2 excludes it)
                let c = of_kind(&|d| matches!(d, Datum::Expr(_)));
                if c.is_empty() {
                    None
                } else {
                    let k = c[pick(c.len())];
                    let (_, s, e) = data[k].2;
                    let o = 1 + (pos / 5) % (e - s - 1);
                    Some(Corrupted { bytes: splice(s + o, s + o, b";"), prefix: r.tokens[..data_tok(k)].to_vec(), partial: None, what: "';' inside an expression", run_level: false })
                }
            }
            _ => {
                // trailing ',' at the end of a unit that has data (lexer + dispatcher):
                // only where the headers are defined in the fixed tree
                let runnable = msg.units.iter().all(|u| crate::fixtree::resolve(&u.header).is_some());
                let c: Vec<usize> = if !runnable { Vec::new() } else { (0..data.len()).filter(|k| *k + 1 == data.len() || data[*k + 1].0 != data[*k].0).filter(|k| !data[*k].1.is_indefinite()).collect() };
                if c.is_empty() {
                    None
                } else {
                    let k = c[pick(c.len())];
                    let (_, _, e) = data[k].2;
                    Some(Corrupted { bytes: splice(e, e, b","), prefix: r.tokens[..=data_tok(k)].to_vec(), partial: None, what: "trailing ','", run_level: true })
                }
            }
        };
        if c.is_some() {
            return c;
        }
    }
    None
}

fn check_corrupt(msg: &Msg, op: u8, pos: u32, byte: u8, obs: &Obs, key: &Case) -> CheckResult {
    let Some(c) = corrupt(msg, op, pos, byte) else {
        fail!("harness-corrupt", "no corruption operator applies");
    };
    obs.label("corrupted message");
    obs.label(c.what);
    obs.nontrivial(key);
    let (got, err) = lex_all(&c.bytes);
    // everything before the corruption point must be lexed as in the intact message
    for (i, w) in c.prefix.iter().enumerate() {
        match got.get(i) {
            Some(g) if g == w => {}
            Some(g) => fail!("prefix-differs", "{:?} ({}): element {i} is {g:?}, expected {w:?} before the corruption", escape(&c.bytes), c.what),
            None => {
                if err.is_some() {
                    fail!("early-error", "{:?} ({}): error after {} elements, {} precede the corruption", escape(&c.bytes), c.what, got.len(), c.prefix.len());
                }
                break;
            }
        }
    }
    let sig: &'static str = if c.what == "',' before the first datum" { "leading-comma" } else { "corruption-accepted" };
    if !c.run_level {
        let extra = &got[c.prefix.len().min(got.len())..];
        let ok_extra = match (extra, &c.partial) {
            ([], _) => true,
            ([g], Some(p)) => g == p,
            _ => false,
        };
        ensure!(ok_extra, sig, "{:?} ({}): the lexer yields {extra:?} at/after the corruption point instead of rejecting it", escape(&c.bytes), c.what);
        match err {
            Some(code) => ensure!(is_command_error(code), "error-class", "{:?} ({}): rejected with {code}, which is not a command error", escape(&c.bytes), c.what),
            None => fail!(sig, "{:?} ({}): the lexer reaches the end of the message without an error", escape(&c.bytes), c.what),
        }
    }
    // executing the corrupted message must fail with a command error as well
    if msg.units.iter().all(|u| crate::fixtree::resolve(&u.header).is_some()) {
        let mut dev = LogDev::default();
        dev.default_plan = UnitPlan::greedy();
        let mut ctx = Context::default();
        let mut resp: Vec<u8> = Vec::new();
        match FIXTREE.run(&c.bytes, &mut dev, &mut ctx, &mut resp) {
            Ok(()) => fail!(sig, "{:?} ({}): the message executes successfully", escape(&c.bytes), c.what),
            Err(e) => ensure!(is_command_error(e.get_code()), "error-class", "{:?} ({}): execution fails with {}, not a command error", escape(&c.bytes), c.what, e.get_code()),
        }
        obs.label("corrupted message also executed");
    } else if c.run_level {
        fail!("harness-corrupt", "run-level corruption on a message with unknown headers");
    }
    Ok(())
}

fn check_exp_ws(mantissa: &str, ws1: &str, e: char, ws2: &str, exp: &str, obs: &Obs, key: &Case) -> CheckResult {
    obs.label("white space around the exponent marker");
    obs.nontrivial(key);
    let lit = format!("{mantissa}{ws1}{e}{ws2}{exp}");
    let text = format!("A {lit},7");
    let (got, err) = lex_all(text.as_bytes());
    let want = vec![ETok::Mnemonic("A".into()), ETok::HeaderSep, ETok::Dec(lit.as_str().into()), ETok::DataSep, ETok::Dec("7".into())];
    if got != want || err.is_some() {
        return Err(Failure::new("exp-ws", format!("{text:?}: lexer gives {got:?} (error {err:?}); 488.2 7.7.2.2 allows white space around the exponent marker, expected one decimal element {lit:?}")));
    }
    Ok(())
}

pub fn check(case: &Case, obs: &Obs) -> CheckResult {
    match case {
        Case::Lex { msg } => check_lex(msg, obs, case),
        Case::Run { msg } => check_run(msg, obs, case),
        Case::Corrupt { msg, op, pos, byte } => check_corrupt(msg, *op, *pos, *byte, obs, case),
        Case::ExpWs { mantissa, ws1, e, ws2, exp } => check_exp_ws(mantissa, ws1, *e, ws2, exp, obs, case),
        Case::Bytes { bytes } => check_bytes(bytes, obs, case),
    }
}

/// Judge the lexer on arbitrary bytes by the independent recogniser.
fn check_bytes(bytes: &[u8], obs: &Obs, key: &Case) -> CheckResult {
    use crate::model::lex488::{recognise, Verdict};
    let verdict = recognise(bytes);
    match &verdict {
        Verdict::Unknown => {
            obs.label("recogniser: no claim");
            return params_differential(bytes, obs);
        }
        Verdict::WellFormed(t) => {
            obs.label("recogniser: well-formed");
            obs.nontrivial_if(t.iter().any(|x| x.is_data()) || t.len() >= 4, key);
        }
        Verdict::Listed { what, .. } => {
            obs.label("recogniser: listed violation");
            obs.label(what);
            obs.nontrivial(key);
        }
    }
    let (got, err) = lex_all(bytes);
    match verdict {
        Verdict::WellFormed(want) => {
            if let Some(code) = err {
                fail!("lex-mismatch", "{:?}: well-formed by 488.2 but the lexer stops with {code} after {} elements; {}", escape(bytes), got.len(), first_difference(&got, &want));
            }
            ensure!(got == want, "lex-mismatch", "{:?}: {}", escape(bytes), first_difference(&got, &want));
        }
        Verdict::Listed { prefix, what } => {
            for (i, w) in prefix.iter().enumerate() {
                match got.get(i) {
                    Some(g) if g == w => {}
                    Some(g) => fail!("prefix-differs", "{:?} ({what}): element {i} is {g:?}, expected {w:?} before the violation", escape(bytes)),
                    None => {
                        ensure!(err.is_none(), "early-error", "{:?} ({what}): error after {} elements, {} precede the violation", escape(bytes), got.len(), prefix.len());
                        break;
                    }
                }
            }
            let sig: &'static str = if what == "',' before the first datum" { "leading-comma" } else { "corruption-accepted" };
            // streaming lexer: the part of the broken element before a non-ASCII byte may come out as one element
            let allowed_extra = if what.starts_with("non-ASCII byte") { 1 } else { 0 };
            ensure!(got.len() <= prefix.len() + allowed_extra, sig, "{:?} ({what}): the lexer yields {:?} at/after the violation instead of rejecting it", escape(bytes), &got[prefix.len()..]);
            match err {
                Some(code) => ensure!(is_command_error(code), "error-class", "{:?} ({what}): rejected with {code}, not a command error", escape(bytes)),
                None => fail!(sig, "{:?} ({what}): the lexer reaches the end without an error", escape(bytes)),
            }
        }
        Verdict::Unknown => unreachable!(),
    }
    params_differential(bytes, obs)
}

/// The public constructor `Tokenizer::new_params` lexes a bare parameter list.
/// Oracle: the recogniser's verdict on `"A " ++ bytes` (one unit, no `;`): the
/// elements after the header separator, and the same rejection point.
fn params_differential(bytes: &[u8], obs: &Obs) -> CheckResult {
    use crate::model::lex488::{recognise, Verdict};
    // (a list that starts with white space is not judged: in this mode the lexer reports the
    // white space as a header separator, and nothing says what a bare list may start with)
    if bytes.len() > 4096 || bytes.first().map_or(true, |c| c.is_ascii_whitespace()) {
        return Ok(());
    }
    let mut m = b"A ".to_vec();
    m.extend_from_slice(bytes);
    let (want, listed): (Vec<ETok>, Option<&'static str>) = match recognise(&m) {
        Verdict::WellFormed(t) => (t, None),
        Verdict::Listed { prefix, what } => (prefix, Some(what)),
        Verdict::Unknown => return Ok(()),
    };
    if want.len() < 2 || want[0] != ETok::Mnemonic(B(b"A".to_vec())) || want[1] != ETok::HeaderSep || want.iter().any(|t| *t == ETok::UnitSep) {
        return Ok(());
    }
    let want = &want[2..];
    let (got, err) = lex_with(Tokenizer::new_params(bytes), bytes.len());
    obs.label("parameter-list constructor judged");
    match listed {
        None => {
            ensure!(err.is_none() && got == want, "params-lex-mismatch", "Tokenizer::new_params({:?}): {} (error {:?})", escape(bytes), first_difference(&got, want), err);
        }
        Some(what) => {
            for (i, w) in want.iter().enumerate() {
                match got.get(i) {
                    Some(g) if g == w => {}
                    Some(g) => fail!("params-prefix-differs", "Tokenizer::new_params({:?}) ({what}): element {i} is {g:?}, expected {w:?} before the violation", escape(bytes)),
                    None => {
                        ensure!(err.is_none(), "params-early-error", "Tokenizer::new_params({:?}) ({what}): error after {} elements, {} precede the violation", escape(bytes), got.len(), want.len());
                        break;
                    }
                }
            }
            let allowed_extra = if what.starts_with("non-ASCII byte") { 1 } else { 0 };
            ensure!(got.len() <= want.len() + allowed_extra, "params-corruption-accepted", "Tokenizer::new_params({:?}) ({what}): yields {:?} at/after the violation instead of rejecting it", escape(bytes), &got[want.len().min(got.len())..]);
            match err {
                Some(code) => ensure!(is_command_error(code), "params-error-class", "Tokenizer::new_params({:?}) ({what}): rejected with {code}, not a command error", escape(bytes)),
                None => fail!("params-corruption-accepted", "Tokenizer::new_params({:?}) ({what}): reaches the end without an error", escape(bytes)),
            }
        }
    }
    Ok(())
}

fn case_strategy() -> impl Strategy<Value = Case> {
    prop_oneof![
        4 => free_message(6, 5, true, true).prop_map(|msg| Case::Lex { msg }),
        2 => crate::fixtree::fixed_message(any::<bool>().boxed(), 5, 4, true, true).prop_map(|msg| Case::Run { msg }),
        3 => (free_message(4, 4, false, false), 0u8..21, any::<u32>(), any::<u8>()).prop_map(|(msg, op, pos, byte)| Case::Corrupt { msg, op, pos, byte }),
        3 => (crate::fixtree::fixed_message(any::<bool>().boxed(), 4, 4, false, false), 0u8..21, any::<u32>(), any::<u8>()).prop_map(|(msg, op, pos, byte)| Case::Corrupt { msg, op, pos, byte }),
    ]
}

fn exp_ws_strategy() -> impl Strategy<Value = Case> {
    ("[+-]?[0-9]{1,4}(\\.[0-9]{0,3})?", "[ \\t]{0,2}", prop_oneof![Just('E'), Just('e')], "[ \\t]{0,2}", "[+-]?[0-9]{1,2}")
        .prop_filter("needs white space", |(_, a, _, b, _)| !a.is_empty() || !b.is_empty())
        .prop_map(|(mantissa, ws1, e, ws2, exp)| Case::ExpWs { mantissa, ws1, e, ws2, exp })
}

fn run(e: &Engine) {
    e.proptest("grammar-and-corruptions", e.tier.pick(400_000, 12_000_000), case_strategy, check);
    for kind in ["datum: character", "datum: decimal", "datum: decimal with suffix", "datum: non-decimal", "datum: string", "datum: block", "datum: expression"] {
        e.require_fraction(kind, "data element", 0.08);
    }
    e.require_fraction("12-character element", "well-formed message", 0.03);
    // (c) all strings over the class alphabet, judged by the recogniser
    let p = crate::gen::enumstr::Partitioned { alpha: crate::props::c01::CLASS_ALPHABET, max_len: e.tier.pick(6, 7), prefix_len: 2 };
    let pr = &p;
    e.enumerate::<Case, _, _>("all-strings-over-class-alphabet", p.parts(), move |part, f| pr.run(part, &mut |s| f(Case::Bytes { bytes: B(s.to_vec()) })), check);
    if e.tier == crate::engine::Tier::Thorough {
        e.fuzz("fuzz-c04_lex", "c04_lex", 8_000_000, |b| Case::Bytes { bytes: B(b.to_vec()) }, check);
    }
    // the known-finding class is generated only here
    e.count_excluded("exp-ws (white space around the exponent marker)", 0);
    e.proptest("exp-ws", e.tier.pick(2_000, 50_000), exp_ws_strategy, check);
    let _ = B::default();
}
