//! C02 — compound-command header paths resolve to exactly the SCPI-designated handler.
use crate::bytes::{escape, B};
use crate::engine::{CheckResult, Engine, Obs, PropertyMeta};
use crate::gen::msg::{Ending, Header, Msg, Unit};
use crate::gen::tree::{realize, tree_strategy, TNode, Tree};
use crate::model::mnemonic::{short_of, split_suffix};
use crate::model::path::{children_of, Res, Resolver};
use crate::rec::LogDev;
use crate::{ensure, fail};
use proptest::prelude::*;
use scpi::Context;
use serde::{Deserialize, Serialize};

pub fn meta() -> PropertyMeta {
    PropertyMeta {
        id: "C02",
        level: "exploration",
        rule: "generated command trees (depth <= 4, <= 5 children, default leaves and default branches, anonymous default leaf, numeric-suffix siblings, common commands; mnemonics visible from one level pairwise non-matching) x histories of 1..3 messages of 1..6 units whose headers are walks through the tree: absolute with leading colon, relative to the current path, common, in short/long form, any letter case, default suffix 1 written or omitted, default nodes spelled out or omitted; plus headers built to designate no node (unknown mnemonic, mnemonic after a leaf, header valid only under another path, branch without default child, wrong suffix) and later messages starting with a header relative to the PREVIOUS message's path. Oracle: reference resolver written from SCPI-99 6.2; recorder handlers observe which leaf ran in which form. PLUS the whole-message differential from bytes (props/execdiff.rs: 488.2 recogniser + reference resolver as the oracle): grammar-generated messages on generated trees after 0..2 byte-level mutations, and for every tree of a pool of 300 (1500) generated trees ALL strings of up to 5 (6) tokens over the tree's own mnemonics, a common command and : ; ? - each judged for designated leaf and form, -113 without any handler, handlers of later units. Node names also include ones that begin in lower case (no short form: the full spelling in any case is the only one). Non-trivial: a message of >= 2 units with a relative header after a default-branch traversal, a common header between relative ones, a leading-colon reset, a suffix sibling, an anonymous default leaf, or a negative header at position >= 2.",
        assumptions: &[
            "precondition SCPI itself imposes on trees: mnemonics visible from a branch (its children plus those reachable through default child branches) are pairwise non-matching",
            "at most one default leaf and one default branch per branch",
        ],
        run,
    }
}

#[derive(Clone, Debug, Serialize, Deserialize, Hash)]
pub struct Intent {
    pub kind: u8,
    pub picks: [u16; 12],
    pub stop: u8,
    pub omit: u8,
    pub long: u8,
    pub case: u8,
    pub mask: u16,
    pub one: u8,
    pub query: bool,
    pub ws: u8,
}

#[derive(Clone, Debug, Serialize, Deserialize, Hash)]
pub struct Case {
    pub tree: Tree,
    pub messages: Vec<Vec<Intent>>,
}

fn render_name(def: &str, it: &Intent, k: usize) -> Vec<u8> {
    let d = def.as_bytes();
    let (alpha, sfx) = split_suffix(d);
    // (a name that starts in lower case has no short form: the full spelling is the only one)
    let a = if it.long >> (k % 8) & 1 == 1 || short_of(alpha).is_empty() { alpha } else { short_of(alpha) };
    let mut s: Vec<u8> = a.to_vec();
    match it.case {
        0 => {}
        1 => s.make_ascii_lowercase(),
        2 => s.make_ascii_uppercase(),
        _ => {
            for (i, c) in s.iter_mut().enumerate() {
                if it.mask >> ((i + k) % 16) & 1 == 1 {
                    *c = if c.is_ascii_lowercase() { c.to_ascii_uppercase() } else { c.to_ascii_lowercase() };
                }
            }
        }
    }
    let write_one = it.one >> (k % 8) & 1 == 1;
    if sfx == b"1" {
        if write_one {
            s.push(b'1');
        }
    } else if sfx.is_empty() {
        if write_one && s.len() < 12 {
            s.push(b'1');
        }
    } else {
        s.extend_from_slice(sfx);
    }
    s
}

/// Walk from `start` through the tree as the intent's picks dictate; returns
/// the explicit nodes visited (as definitions) with their default flags.
fn walk<'t>(tree: &'t Tree, start: &[usize], it: &Intent) -> Vec<&'t TNode> {
    let mut out = Vec::new();
    let mut path = start.to_vec();
    for k in 0..12 {
        let children: Vec<(usize, &TNode)> = children_of(tree, &path).iter().enumerate().filter(|(_, c)| !c.name().starts_with('*')).collect();
        if children.is_empty() {
            break;
        }
        let (i, c) = children[(it.picks[k] as usize * children.len()) >> 16];
        out.push(c);
        path.push(i);
        if !c.is_branch() {
            break;
        }
        // stop at a branch now and then (ends at its default node or is undefined)
        if it.stop >> (k % 8) & 1 == 1 && k > 0 {
            break;
        }
    }
    out
}

fn build_header(tree: &Tree, cur: &[usize], prev_msg_path: &[usize], first: bool, it: &Intent) -> Header {
    let commons: Vec<&TNode> = tree.root.iter().filter(|c| c.name().starts_with('*')).collect();
    let kind = if it.kind == 2 && commons.is_empty() { 0 } else { it.kind };
    if kind == 2 {
        let c = commons[(it.picks[0] as usize * commons.len()) >> 16];
        let name = render_name(c.name().trim_start_matches('*'), it, 0);
        return Header { common: true, colon: false, path: vec![B(name)], query: it.query };
    }
    let (start, colon): (&[usize], bool) = match kind {
        0 => (&[], true),
        1 | 3 | 4 | 6 => {
            if first {
                (&[], it.omit & 0x80 != 0)
            } else if it.omit & 0x40 != 0 {
                (&[], true)
            } else {
                (cur, false)
            }
        }
        5 => (&[], false), // absolute target rendered without colon: valid only if the path is the root
        _ => (prev_msg_path, false), // relative to where the previous message ended
    };
    let nodes = walk(tree, start, it);
    let mut path: Vec<B> = Vec::new();
    let n = nodes.len();
    for (k, node) in nodes.iter().enumerate() {
        // default nodes may be omitted; the anonymous default leaf cannot be spelled at all
        let omit = node.is_default() && (node.name().is_empty() || it.omit >> (k % 8) & 1 == 1 || it.omit == 0xFF);
        if omit && !(path.is_empty() && k + 1 == n) {
            continue;
        }
        if node.name().is_empty() {
            continue;
        }
        path.push(B(render_name(node.name(), it, k)));
    }
    if path.is_empty() {
        // nothing spellable (e.g. only an anonymous default leaf): use an unknown mnemonic
        path.push(B(b"QQZZ".to_vec()));
    }
    match kind {
        3 => {
            // unknown mnemonic somewhere
            let k = (it.picks[11] as usize * path.len()) >> 16;
            path[k] = B(b"ZZQY".to_vec());
        }
        4 => path.push(B(b"EXTRa".to_vec())),
        6 => {
            // wrong numeric suffix on one mnemonic
            let k = (it.picks[11] as usize * path.len()) >> 16;
            let (alpha, _) = split_suffix(&path[k]);
            let mut a = alpha.to_vec();
            a.truncate(11);
            a.push(b'7');
            path[k] = B(a);
        }
        _ => {}
    }
    Header { common: false, colon, path, query: it.query }
}

fn build_message(tree: &Tree, intents: &[Intent], prev_msg_path: &[usize]) -> (Msg, Vec<Res>, Vec<usize>) {
    let mut res = Resolver::new(tree);
    let mut units = Vec::new();
    let mut expected = Vec::new();
    let mut dead = false;
    for (i, it) in intents.iter().enumerate() {
        let h = build_header(tree, &res.path.clone(), prev_msg_path, i == 0, it);
        if !dead {
            let r = res.unit(i == 0, &h);
            expected.push(r);
            if r != Res::Leaf(usize::MAX) && !matches!(r, Res::Leaf(_)) {
                dead = true;
            }
        }
        units.push(Unit { header: h, ws_header: B(if it.ws & 1 == 1 { b" ".to_vec() } else { vec![] }), data: vec![], ws_data: vec![] });
    }
    let n = units.len();
    let ws_units = (0..n.saturating_sub(1)).map(|i| (B(if intents[i].ws & 2 != 0 { b" ".to_vec() } else { vec![] }), B(if intents[i].ws & 4 != 0 { b" ".to_vec() } else { vec![] }))).collect();
    let ending = Ending::ALL[(intents[0].ws >> 3) as usize % 7];
    (Msg { lead_ws: B::default(), units, ws_units, ending }, expected, res.path)
}

/// The message a list of intents denotes on `tree` (used by C01 as a source of
/// headers that reach handlers).
pub fn message_for(tree: &Tree, intents: &[Intent]) -> Msg {
    build_message(tree, intents, &[]).0
}

fn has_anonymous_default(nodes: &[TNode]) -> bool {
    nodes.iter().any(|n| (n.name().is_empty() && n.is_default()) || has_anonymous_default(n.children()))
}

pub fn check(case: &Case, obs: &Obs) -> CheckResult {
    let real = realize(&case.tree);
    let mut dev = LogDev::default();
    let mut prev_path: Vec<usize> = Vec::new();
    obs.label_if(has_anonymous_default(&case.tree.root), "tree with anonymous default leaf");
    let mut nontrivial = false;
    for (mi, intents) in case.messages.iter().enumerate() {
        let (msg, expected, end_path) = build_message(&case.tree, intents, &prev_path);
        let r = msg.render();
        let txt = escape(&r.bytes);
        if expected.iter().any(|e| *e == Res::Unjudged) {
            obs.label("message not judged (leading-zero suffix)");
            return Ok(());
        }
        // classification
        let n = msg.units.len();
        let negative_at = expected.iter().position(|e| *e == Res::Undefined);
        obs.label("message");
        obs.label_if(negative_at.is_some(), "message with a header designating no node");
        obs.label_if(negative_at.map_or(false, |p| p >= 1), "negative header at position >= 2");
        let relative_units = msg.units.iter().enumerate().filter(|(i, u)| *i > 0 && !u.header.common && !u.header.colon).count();
        obs.label_if(relative_units > 0, "message with a relative header");
        let common_between = (1..n.saturating_sub(1)).any(|i| msg.units[i].header.common && !msg.units[i + 1].header.common && !msg.units[i + 1].header.colon);
        obs.label_if(common_between, "common header before a relative one");
        obs.label_if(mi > 0, "later message of a history");
        obs.label_if(msg.units.iter().skip(1).any(|u| u.header.colon), "leading-colon reset");
        if n >= 2 && (relative_units > 0 || common_between || negative_at.map_or(false, |p| p >= 1)) {
            nontrivial = true;
        }
        // run
        dev.calls.clear();
        dev.errors.clear();
        let mut ctx = Context::default();
        let mut resp: Vec<u8> = Vec::new();
        let res = real.root.run(&r.bytes, &mut dev, &mut ctx, &mut resp);
        // compare
        let want_calls: Vec<(usize, bool)> = expected.iter().zip(msg.units.iter()).filter_map(|(e, u)| if let Res::Leaf(id) = e { Some((*id, u.header.query)) } else { None }).collect();
        let got_calls: Vec<(usize, bool)> = dev.calls.iter().map(|c| (c.leaf, c.query)).collect();
        if got_calls != want_calls {
            let k = got_calls.iter().zip(want_calls.iter()).position(|(a, b)| a != b).unwrap_or(got_calls.len().min(want_calls.len()));
            fail!(
                "wrong-handler",
                "message {mi} {txt:?}: unit {k}: handlers that ran (leaf, query) = {got_calls:?}, SCPI designates {want_calls:?}{}",
                if negative_at.is_some() { " then -113" } else { "" }
            );
        }
        match (negative_at, &res) {
            (None, Ok(())) => {}
            (Some(_), Err(e)) if e.get_code() == -113 => {}
            (None, Err(e)) => fail!("spurious-error", "message {mi} {txt:?}: fails with {} although every header designates a node", e.get_code()),
            (Some(p), Ok(())) => fail!("undefined-accepted", "message {mi} {txt:?}: succeeds although unit {p} designates no node"),
            (Some(p), Err(e)) => fail!("wrong-error", "message {mi} {txt:?}: unit {p} designates no node; error is {}, expected -113", e.get_code()),
        }
        // the error hook sees exactly the returned error, once; never on success (C05 over generated trees)
        match &res {
            Ok(()) => ensure!(dev.errors.is_empty(), "hook-on-success", "message {mi} {txt:?}: the error hook was called for a successful message"),
            Err(e) => ensure!(dev.errors.len() == 1 && dev.errors[0] == *e, "hook-mismatch", "message {mi} {txt:?}: run returned {e:?}, the error hook saw {:?}", dev.errors),
        }
        // the same message once more with ONE of the designated handlers refusing its form with -113 itself (what the
        // provided Command::event / query stubs of a query-only / command-only leaf do): the message stops there with
        // that error; no other node is tried in its place and no later unit runs
        if negative_at.is_none() && n >= 1 && want_calls.len() == n {
            let j = intents.first().map_or(0, |it| it.mask as usize) % n;
            let mut plans = vec![crate::rec::UnitPlan::greedy(); n];
            plans[j].fail = Some(crate::rec::ErrSpec { code: -113, custom: false, extended: false });
            let mut dev2 = LogDev::with_plan(plans);
            let mut resp2: Vec<u8> = Vec::new();
            let res2 = real.root.run(&r.bytes, &mut dev2, &mut Context::default(), &mut resp2);
            let got2: Vec<(usize, bool)> = dev2.calls.iter().map(|c| (c.leaf, c.query)).collect();
            obs.label("message with a handler that refuses its form");
            ensure!(got2 == want_calls[..=j], "wrong-handler", "message {mi} {txt:?} with the handler of unit {j} returning -113: handlers that ran (leaf, query) = {got2:?}, expected {:?} and nothing after", &want_calls[..=j]);
            ensure!(matches!(&res2, Err(e) if e.get_code() == -113), "refusal-lost", "message {mi} {txt:?} with the handler of unit {j} returning -113: run returned {:?}", res2.map_err(|e| e.get_code()));
            ensure!(dev2.errors.len() == 1, "hook-mismatch", "message {mi} {txt:?} with the handler of unit {j} returning -113: the error hook saw {:?}", dev2.errors);
        }
        prev_path = end_path;
    }
    obs.nontrivial_if(nontrivial, case);
    Ok(())
}

fn intent() -> impl Strategy<Value = Intent> {
    (
        prop_oneof![4 => Just(0u8), 8 => Just(1u8), 3 => Just(2u8), 1 => Just(3u8), 1 => Just(4u8), 2 => Just(5u8), 1 => Just(6u8)],
        any::<[u16; 12]>(),
        any::<u8>(),
        any::<u8>(),
        any::<u8>(),
        0u8..4,
        any::<u16>(),
        any::<u8>(),
        any::<bool>(),
        any::<u8>(),
    )
        .prop_map(|(kind, picks, stop, omit, long, case, mask, one, query, ws)| Intent { kind, picks, stop, omit, long, case, mask, one, query, ws })
}

fn case_strategy() -> impl Strategy<Value = Case> {
    (tree_strategy(), prop_oneof![19 => proptest::collection::vec(prop_oneof![19 => proptest::collection::vec(intent(), 1..7), 1 => proptest::collection::vec(intent(), 8..24)], 1..4), 1 => proptest::collection::vec(proptest::collection::vec(intent(), 1..4), 5..12)]).prop_map(|(tree, mut messages)| {
        // later messages start with a header relative to where the previous message ended
        for m in messages.iter_mut().skip(1) {
            if m[0].omit & 1 == 1 {
                m[0].kind = 7;
            }
        }
        Case { tree, messages }
    })
}

fn run(e: &Engine) {
    e.proptest("tree-walk-histories", e.tier.pick(150_000, 4_000_000), case_strategy, check);
    e.require_fraction("message with a relative header", "message", 0.10);
    e.require_fraction("common header before a relative one", "message", 0.02);
    e.require_fraction("message with a header designating no node", "message", 0.15);
    e.require_fraction("later message of a history", "message", 0.2);
    // whole-message differential from bytes on generated trees: the recogniser
    // decomposes the (mutated) message, the resolver designates the leaves
    use crate::props::execdiff::{self, Case as D};
    e.proptest("bytes-differential-generated-trees", e.tier.pick(150_000, 4_000_000), || crate::props::c01::mutated_generated().prop_map(|(tree, b)| D::Gen { tree, bytes: crate::bytes::B(b) }), execdiff::check);
    e.require_fraction("judged message with two or more units", "judged", 0.2);
    // bounded-exhaustive: for every tree of a pool, ALL strings of up to N tokens over the
    // tree's own mnemonics (short form), a common command and `:` `;` `?`
    let seed = e.seed;
    let n_trees = if cfg!(debug_assertions) { e.tier.pick(40u64, 100) } else { e.tier.pick(300u64, 1500) };
    let max_tokens = e.tier.pick(5usize, 6);
    e.enumerate::<D, _, _>(
        "bytes-differential-all-token-strings-per-tree",
        n_trees,
        move |part, f| {
            let tree = execdiff::pool_tree(seed, part as u32);
            let toks = execdiff::tree_tokens(&tree);
            let idx: Vec<u8> = (0..toks.len() as u8).collect();
            crate::gen::enumstr::for_all_strings(&idx, max_tokens, &mut |s| f(D::Pool { seed, idx: part as u32, bytes: crate::bytes::B(execdiff::concat(&toks, s)) }));
        },
        execdiff::check,
    );
    // a tree written with the crate's Root! / Branch! / Leaf! macros (every form) and Node::* constructors:
    // ALL strings of up to 5 (6) tokens over its mnemonics
    if !e.replay_only {
        if let Err(m) = execdiff::models_agree() {
            e.harness_error(format!("tree model self-test: {m}"));
            return;
        }
    }
    let toks: Vec<Vec<u8>> = execdiff::MACRO_TOKENS.iter().map(|t| t.to_vec()).collect();
    let idx: Vec<u8> = (0..toks.len() as u8).collect();
    let tp = crate::gen::enumstr::Partitioned { alpha: &idx, max_len: if cfg!(debug_assertions) { 4 } else { e.tier.pick(5usize, 6) }, prefix_len: 2 };
    let (tpr, toksr) = (&tp, &toks);
    e.enumerate::<D, _, _>("bytes-differential-macro-built-tree", tp.parts(), move |part, f| tpr.run(part, &mut |s| f(D::Macro { bytes: crate::bytes::B(execdiff::concat(toksr, s)) })), execdiff::check);
}
