//! Shared machinery of C13, C15 and C16: histories of messages on the minimal
//! SCPI device, executed in lock-step with the status model.
use crate::bytes::escape;
use crate::dev488::{MinDev, BOUNDED_CAP, MIN_TREE, MIN_TREE_ALT};
use crate::engine::{CheckResult, Failure, Obs};
use crate::model::esr::{class_bit, is_command_error};
use crate::model::status::{Item, RegSet, Status};
use crate::rec::ErrSpec;
use proptest::prelude::*;
use scpi::error::Error;
use scpi::Context;
use serde::{Deserialize, Serialize};

#[derive(Clone, Copy, Debug, PartialEq, Eq, Hash, Serialize, Deserialize)]
pub enum Reg {
    Oper,
    Ques,
}

#[derive(Clone, Copy, Debug, PartialEq, Eq, Hash, Serialize, Deserialize)]
pub enum Bad {
    Garbage,
    UnterminatedString,
    UndefinedHeader,
    Missing,
    Surplus,
    WrongType,
    OutOfRange,
    /// a unit that is nothing but `:` (the root addressed with nothing below it)
    LoneColon,
    /// an unknown common command
    UndefinedCommon,
}

#[derive(Clone, Copy, Debug, PartialEq, Eq, Hash, Serialize, Deserialize)]
pub enum U {
    Cls,
    Ese(i32),
    EseQ,
    EsrQ,
    IdnQ,
    Opc,
    OpcQ,
    Rst,
    Sre(i32),
    SreQ,
    StbQ,
    TstQ,
    Wai,
    Ev(Reg),
    Cond(Reg),
    Enab(Reg, i32),
    EnabQ(Reg),
    Ntr(Reg, i32),
    NtrQ(Reg),
    Ptr(Reg, i32),
    PtrQ(Reg),
    Pres,
    ErrNext,
    ErrCount,
    ErrAll,
    Vers,
    Fail(ErrSpec),
    U8(i32),
    U8Q(i32),
    Bad(Bad),
}

#[derive(Clone, Copy, Debug, PartialEq, Eq, Hash, Serialize, Deserialize)]
pub enum DevEvent {
    SetCond(Reg, u16),
    SetBits(Reg, u16),
    ClearBits(Reg, u16),
    /// device code acknowledges the events itself (`EventRegister::clear_event`)
    #[serde(alias = "ClearEvent")]
    ClearEvent(Reg),
    /// device code presets ONE register set through the trait's generic helper
    /// (`ScpiDevice::preset_register::<REG>()`; a device with its own `preset()` does that per register)
    PresetOne(Reg),
}

#[derive(Clone, Debug, PartialEq, Eq, Hash, Serialize, Deserialize)]
pub struct Step {
    pub events: Vec<DevEvent>,
    pub mav: bool,
    pub tst: Option<ErrSpec>,
    /// (unit, spelling style)
    pub units: Vec<(U, u8)>,
    /// a stored message executed from inside a handler (nested `Node::run` with the same device and context)
    #[serde(default)]
    pub stored: Option<Stored>,
}

/// `TEST:MACRo "<units>"` (strict: `TEST:SMACro`) inserted before unit `at` of the step (at the end when `at` is beyond it).
#[derive(Clone, Debug, PartialEq, Eq, Hash, Serialize, Deserialize)]
pub struct Stored {
    pub at: u8,
    pub strict: bool,
    pub units: Vec<(U, u8)>,
}

fn render_stored(st: &Stored, first: bool) -> Vec<u8> {
    let mut v = if first { Vec::new() } else { b":".to_vec() };
    v.extend_from_slice(if st.strict { b"TEST:SMACro \"" } else { b"TEST:MACR \"" });
    for (i, (u, style)) in st.units.iter().enumerate() {
        if i > 0 {
            v.push(b';');
        }
        v.extend_from_slice(&render_unit(u, *style, i == 0));
    }
    v.push(b'"');
    v
}

#[derive(Clone, Debug, PartialEq, Eq, Hash, Serialize, Deserialize)]
pub struct History {
    pub bounded: bool,
    pub steps: Vec<Step>,
}

/// Which observables a property compares (all of them keep the model in step).
#[derive(Clone, Copy)]
pub struct Scope {
    /// C13 does not state what *CLS does to the queue (C16 does): after a message
    /// containing *CLS the model adopts the device's queue and ESR instead of judging them
    pub cls_agnostic: bool,
    pub queue_and_esr: bool,
    pub registers: bool,
    pub status_byte: bool,
}

fn reg_name(r: Reg, long: bool) -> &'static str {
    match (r, long) {
        (Reg::Oper, false) => "OPER",
        (Reg::Oper, true) => "OPERation",
        (Reg::Ques, false) => "QUES",
        (Reg::Ques, true) => "QUEStionable",
    }
}

fn num(v: i32, style: u8) -> String {
    if v >= 0 && style & 0x10 != 0 {
        format!("#H{v:X}")
    } else if v >= 0 && style & 0x20 != 0 {
        format!("{v}.0")
    } else {
        v.to_string()
    }
}

pub fn render_unit(u: &U, style: u8, first: bool) -> Vec<u8> {
    let long = style & 1 != 0;
    let colon = if first && style & 2 != 0 { "" } else { ":" };
    let stat = if long { "STATus" } else { "STAT" };
    let syst = if long { "SYSTem" } else { "SYST" };
    let err = if long { "ERRor" } else { "ERR" };
    let s: String = match u {
        U::Cls => "*CLS".into(),
        U::Ese(v) => format!("*ESE {}", num(*v, style)),
        U::EseQ => "*ESE?".into(),
        U::EsrQ => "*ESR?".into(),
        U::IdnQ => "*IDN?".into(),
        U::Opc => "*OPC".into(),
        U::OpcQ => "*OPC?".into(),
        U::Rst => "*RST".into(),
        U::Sre(v) => format!("*SRE {}", num(*v, style)),
        U::SreQ => "*SRE?".into(),
        U::StbQ => "*STB?".into(),
        U::TstQ => "*TST?".into(),
        U::Wai => "*WAI".into(),
        U::Ev(r) => {
            if style & 4 != 0 {
                format!("{colon}{stat}:{}:{}?", reg_name(*r, long), if long { "EVENt" } else { "EVEN" })
            } else {
                format!("{colon}{stat}:{}?", reg_name(*r, long))
            }
        }
        U::Cond(r) => format!("{colon}{stat}:{}:{}?", reg_name(*r, long), if long { "CONDition" } else { "COND" }),
        U::Enab(r, v) => format!("{colon}{stat}:{}:{} {}", reg_name(*r, long), if long { "ENABle" } else { "ENAB" }, num(*v, style)),
        U::EnabQ(r) => format!("{colon}{stat}:{}:{}?", reg_name(*r, long), if long { "ENABle" } else { "ENAB" }),
        U::Ntr(r, v) => format!("{colon}{stat}:{}:{} {}", reg_name(*r, long), if long { "NTRansition" } else { "NTR" }, num(*v, style)),
        U::NtrQ(r) => format!("{colon}{stat}:{}:{}?", reg_name(*r, long), if long { "NTRansition" } else { "NTR" }),
        U::Ptr(r, v) => format!("{colon}{stat}:{}:{} {}", reg_name(*r, long), if long { "PTRansition" } else { "PTR" }, num(*v, style)),
        U::PtrQ(r) => format!("{colon}{stat}:{}:{}?", reg_name(*r, long), if long { "PTRansition" } else { "PTR" }),
        U::Pres => format!("{colon}{stat}:{}", if long { "PRESet" } else { "PRES" }),
        U::ErrNext => {
            if style & 4 != 0 {
                format!("{colon}{syst}:{err}:NEXT?")
            } else {
                format!("{colon}{syst}:{err}?")
            }
        }
        U::ErrCount => format!("{colon}{syst}:{err}:{}?", if long { "COUNt" } else { "COUN" }),
        U::ErrAll => format!("{colon}{syst}:{err}:ALL?"),
        U::Vers => format!("{colon}{syst}:{}?", if long { "VERSion" } else { "VERS" }),
        U::Fail(e) => format!("{colon}TEST:FAIL {},{},{}", e.code, e.custom as u8, if e.extended { "ON" } else { "OFF" }),
        U::U8(v) => format!("{colon}TEST:U8 {}", num(*v, style)),
        U::U8Q(v) => format!("{colon}TEST:U8? {}", num(*v, style)),
        U::Bad(b) => match b {
            Bad::Garbage => return vec![0x80 | style],
            Bad::UnterminatedString => format!("{colon}TEST:U8 \"abc"),
            Bad::UndefinedHeader => format!("{colon}FOO:BAR"),
            Bad::Missing => "*ESE".into(),
            Bad::Surplus => "*CLS 1".into(),
            Bad::WrongType => "*ESE \"x\"".into(),
            Bad::OutOfRange => "*SRE 256".into(),
            Bad::LoneColon => ":".into(),
            Bad::UndefinedCommon => "*FOO".into(),
        },
    };
    let mut v = s.into_bytes();
    if style & 8 != 0 {
        v.make_ascii_lowercase();
    }
    v
}

pub fn render_step(step: &Step) -> Vec<u8> {
    let mut out = Vec::new();
    let at = step.stored.as_ref().map(|s| (s.at as usize).min(step.units.len()));
    let mut swallowed = false;
    for (i, (u, style)) in step.units.iter().enumerate() {
        if at == Some(i) {
            if !out.is_empty() {
                out.push(b';');
            }
            let first = out.is_empty();
            out.extend_from_slice(&render_stored(step.stored.as_ref().unwrap(), first));
        }
        if !out.is_empty() {
            out.push(b';');
        }
        let first = out.is_empty();
        out.extend_from_slice(&render_unit(u, *style, first));
        // an unterminated string swallows the rest of the message
        if matches!(u, U::Bad(Bad::UnterminatedString)) {
            swallowed = true;
            break;
        }
    }
    if at == Some(step.units.len()) && !swallowed {
        if !out.is_empty() {
            out.push(b';');
        }
        let first = out.is_empty();
        out.extend_from_slice(&render_stored(step.stored.as_ref().unwrap(), first));
    }
    out
}

/// What the model expects of one unit.
pub enum Outcome {
    Ok(Option<Vec<u8>>),
    /// fails with exactly this error
    FailExact(Item),
    /// fails with an error whose code lies in the range
    FailClass(i16, i16),
}

fn item_of(e: &Error) -> Item {
    Item { code: e.get_code(), message: e.get_message().to_vec(), extended: e.get_extended().map(|x| x.to_vec()) }
}

fn reg<'a>(m: &'a mut Status, r: Reg) -> &'a mut RegSet {
    match r {
        Reg::Oper => &mut m.oper,
        Reg::Ques => &mut m.ques,
    }
}

/// Apply one unit to the model.
pub fn model_unit(m: &mut Status, u: &U, mav: bool, tst: &Option<ErrSpec>) -> Outcome {
    let n = |v: u32| Outcome::Ok(Some(v.to_string().into_bytes()));
    match *u {
        U::Cls => {
            m.cls();
            Outcome::Ok(None)
        }
        U::Ese(v) => {
            if (0..=255).contains(&v) {
                m.ese = v as u8;
                Outcome::Ok(None)
            } else {
                Outcome::FailClass(-222, -222)
            }
        }
        U::EseQ => n(m.ese as u32),
        U::EsrQ => {
            let v = m.esr;
            m.esr = 0;
            n(v as u32)
        }
        U::IdnQ => Outcome::Ok(Some(b"VERIF,T800,0,1".to_vec())),
        U::Opc => {
            m.opc();
            Outcome::Ok(None)
        }
        U::OpcQ => n(1),
        U::Rst | U::Wai => Outcome::Ok(None),
        U::Sre(v) => {
            if (0..=255).contains(&v) {
                m.sre = v as u8;
                Outcome::Ok(None)
            } else {
                Outcome::FailClass(-222, -222)
            }
        }
        U::SreQ => n(m.sre as u32),
        U::StbQ => n(m.stb(mav) as u32),
        U::TstQ => Outcome::Ok(Some(tst.map_or(0, |e| e.code).to_string().into_bytes())),
        U::Ev(r) => {
            let v = reg(m, r).event;
            reg(m, r).event = 0;
            n((v & 0x7FFF) as u32)
        }
        U::Cond(r) => n((reg(m, r).cond & 0x7FFF) as u32),
        U::Enab(r, v) | U::Ntr(r, v) | U::Ptr(r, v) => {
            if (0..=65535).contains(&v) {
                let rs = reg(m, r);
                match u {
                    U::Enab(..) => rs.enable = v as u16,
                    U::Ntr(..) => rs.ntr = v as u16,
                    _ => rs.ptr = v as u16,
                }
                Outcome::Ok(None)
            } else {
                Outcome::FailClass(-222, -222)
            }
        }
        U::EnabQ(r) => n((reg(m, r).enable & 0x7FFF) as u32),
        U::NtrQ(r) => n((reg(m, r).ntr & 0x7FFF) as u32),
        U::PtrQ(r) => n((reg(m, r).ptr & 0x7FFF) as u32),
        U::Pres => {
            m.preset();
            Outcome::Ok(None)
        }
        U::ErrNext => Outcome::Ok(Some(m.queue.pop_front().unwrap_or_else(Item::no_error).encode())),
        U::ErrCount => n(m.queue.len() as u32),
        U::ErrAll => {
            if m.queue.is_empty() {
                Outcome::Ok(Some(Item::no_error().encode()))
            } else {
                let mut out = Vec::new();
                for (i, it) in m.queue.drain(..).enumerate() {
                    if i > 0 {
                        out.push(b',');
                    }
                    out.extend_from_slice(&it.encode());
                }
                Outcome::Ok(Some(out))
            }
        }
        U::Vers => Outcome::Ok(Some(b"1999.0".to_vec())),
        U::Fail(e) => Outcome::FailExact(item_of(&e.build())),
        U::U8(v) | U::U8Q(v) => {
            if (0..=255).contains(&v) {
                Outcome::Ok(if matches!(u, U::U8Q(_)) { Some(v.to_string().into_bytes()) } else { None })
            } else {
                Outcome::FailClass(-222, -222)
            }
        }
        U::Bad(b) => match b {
            Bad::Garbage | Bad::UnterminatedString | Bad::WrongType | Bad::LoneColon => Outcome::FailClass(-199, -100),
            Bad::UndefinedHeader | Bad::UndefinedCommon => Outcome::FailClass(-113, -113),
            Bad::Missing => Outcome::FailClass(-109, -109),
            Bad::Surplus => {
                // "*CLS 1": the handler runs (and clears) before the leftover datum is noticed
                m.cls();
                Outcome::FailClass(-108, -108)
            }
            Bad::OutOfRange => Outcome::FailClass(-222, -222),
        },
    }
}

fn show_reg(r: &RegSet) -> String {
    format!("cond={:#06x} event={:#06x} enable={:#06x} ptr={:#06x} ntr={:#06x}", r.cond, r.event, r.enable, r.ptr, r.ntr)
}

/// Run a history on the real device and the model; compare what `scope` names.
pub fn run_history(h: &History, scope: Scope, obs: &Obs) -> CheckResult {
    let mut dev = MinDev::new(h.bounded);
    let mut m = Status::power_on(if h.bounded { Some(BOUNDED_CAP) } else { None });
    let mut stb_rich = 0;
    let mut mav_seen = [false, false];
    let mut shared_ctx = Context::default();
    let mut last_mav = false;
    for (si, step) in h.steps.iter().enumerate() {
        // device-side events
        for ev in &step.events {
            match *ev {
                DevEvent::SetCond(r, v) => {
                    match r {
                        Reg::Oper => dev.operation.set_condition(v),
                        Reg::Ques => dev.questionable.set_condition(v),
                    }
                    reg(&mut m, r).set_condition(v);
                }
                DevEvent::SetBits(r, v) => {
                    match r {
                        Reg::Oper => dev.operation.set_condition_bits(v),
                        Reg::Ques => dev.questionable.set_condition_bits(v),
                    }
                    let c = reg(&mut m, r).cond | v;
                    reg(&mut m, r).set_condition(c);
                }
                DevEvent::ClearBits(r, v) => {
                    match r {
                        Reg::Oper => dev.operation.clear_condition_bits(v),
                        Reg::Ques => dev.questionable.clear_condition_bits(v),
                    }
                    let c = reg(&mut m, r).cond & !v;
                    reg(&mut m, r).set_condition(c);
                }
                DevEvent::ClearEvent(r) => {
                    match r {
                        Reg::Oper => dev.operation.clear_event(),
                        Reg::Ques => dev.questionable.clear_event(),
                    }
                    reg(&mut m, r).event = 0;
                }
                DevEvent::PresetOne(r) => {
                    use scpi_contrib::scpi1999::prelude::{Operation, Questionable, ScpiDevice};
                    match r {
                        Reg::Oper => dev.preset_register::<Operation>(),
                        Reg::Ques => dev.preset_register::<Questionable>(),
                    }
                    let rs = reg(&mut m, r);
                    rs.enable = 0;
                    rs.ptr = 0xFFFF;
                    rs.ntr = 0;
                }
            }
        }
        dev.tst = step.tst;
        dev.nested.clear();
        let bytes = render_step(step);
        let txt = escape(&bytes);
        // Histories that start with a bounded queue use ONE Context for the whole history, and
        // the interface writes its message-available flag only when it changes; the others use a
        // fresh Context per message. (The library must never write the flag itself.)
        if !h.bounded || si == 0 {
            shared_ctx = Context::default();
            last_mav = false;
        }
        if step.mav != last_mav {
            shared_ctx.mav = step.mav;
            last_mav = step.mav;
        }
        let ctx = &mut shared_ctx;
        mav_seen[step.mav as usize] = true;
        let mut resp: Vec<u8> = Vec::new();
        // histories with an odd number of steps run on the tree built from constructor functions with the
        // common commands in a transparent default branch
        let tree = if h.steps.len() % 2 == 1 { &MIN_TREE_ALT } else { &MIN_TREE };
        let res = tree.run(&bytes, &mut dev, ctx, &mut resp);
        // model, unit by unit
        let mut want_resp: Vec<u8> = Vec::new();
        let mut any_resp = false;
        let mut failed: Option<(usize, Outcome)> = None;
        // responses by kind, to compare only those in scope
        let mut resp_in_scope = true;
        let stored_at = step.stored.as_ref().map(|s| (s.at as usize).min(step.units.len()));
        let mut nested_seen = 0usize;
        // the stored message of this step: its units act on the model like any message's, its response is
        // discarded, its failure is reported (queued, flagged) on its own; then MACRo succeeds and SMACro fails with -272
        macro_rules! run_stored {
            ($ui:expr) => {{
                let st = step.stored.as_ref().unwrap();
                let mut nested_failed: Option<Outcome> = None;
                for (nu, _) in &st.units {
                    match model_unit(&mut m, nu, step.mav, &step.tst) {
                        Outcome::Ok(_) => {}
                        f => {
                            nested_failed = Some(f);
                            break;
                        }
                    }
                }
                let rec = dev.nested.get(nested_seen).cloned();
                nested_seen += 1;
                obs.label("stored message executed from a handler");
                match (nested_failed, rec) {
                    (_, None) => return Err(Failure::new("stored-not-run", format!("step {si} {txt:?}: the stored message before unit {} was not executed", $ui))),
                    (None, Some(None)) => None,
                    (None, Some(Some(e))) => return Err(Failure::new("spurious-failure", format!("step {si} {txt:?}: the stored message fails with {}, the model expects success", e.get_code()))),
                    (Some(_), Some(None)) => return Err(Failure::new("failure-swallowed", format!("step {si} {txt:?}: the stored message succeeds although one of its units must fail"))),
                    (Some(exp), Some(Some(e))) => {
                        let got = item_of(&e);
                        match &exp {
                            Outcome::FailExact(want) if *want != got => return Err(Failure::new("wrong-error", format!("step {si} {txt:?}: the stored message fails with {got:?}, expected exactly {want:?}"))),
                            Outcome::FailClass(lo, hi) if !(*lo..=*hi).contains(&got.code) => return Err(Failure::new("wrong-error-class", format!("step {si} {txt:?}: the stored message fails with {}, expected a code in {lo}..={hi}", got.code))),
                            _ => {}
                        }
                        m.fail(got);
                        obs.label("stored message fails");
                        if st.strict {
                            Some(Outcome::FailExact(Item { code: -272, message: b"Macro execution error".to_vec(), extended: None }))
                        } else {
                            None
                        }
                    }
                }
            }};
        }
        for (ui, (u, _)) in step.units.iter().enumerate() {
            if stored_at == Some(ui) {
                if let Some(f) = run_stored!(ui) {
                    failed = Some((ui, f));
                    break;
                }
            }
            if matches!(u, U::StbQ) {
                let inputs = [!m.queue.is_empty(), m.ques.summary(), step.mav, m.esr & m.ese != 0, m.oper.summary()];
                if inputs.iter().filter(|b| **b).count() >= 3 {
                    stb_rich += 1;
                }
            }
            let in_scope = match u {
                U::ErrNext | U::ErrCount | U::ErrAll => scope.queue_and_esr,
                U::EsrQ => scope.queue_and_esr || scope.status_byte,
                U::Ev(_) | U::Cond(_) | U::EnabQ(_) | U::NtrQ(_) | U::PtrQ(_) => scope.registers,
                U::StbQ | U::EseQ | U::SreQ | U::OpcQ | U::TstQ => scope.status_byte,
                _ => true,
            };
            let alt_tree = h.steps.len() % 2 == 1;
            let modelled = match model_unit(&mut m, u, step.mav, &step.tst) {
                Outcome::Ok(Some(_)) if alt_tree && matches!(u, U::IdnQ) => Outcome::Ok(Some(crate::dev488::ALT_IDN.to_vec())),
                o => o,
            };
            match modelled {
                Outcome::Ok(Some(r)) => {
                    if any_resp {
                        want_resp.push(b';');
                    }
                    any_resp = true;
                    want_resp.extend_from_slice(&r);
                    if !in_scope {
                        resp_in_scope = false;
                    }
                }
                Outcome::Ok(None) => {}
                f => {
                    failed = Some((ui, f));
                    break;
                }
            }
        }
        if failed.is_none() && stored_at == Some(step.units.len()) && !step.units.iter().any(|(u, _)| matches!(u, U::Bad(Bad::UnterminatedString))) {
            if let Some(f) = run_stored!(step.units.len()) {
                failed = Some((step.units.len(), f));
            }
        }
        let _ = nested_seen;
        if any_resp {
            want_resp.push(b'\n');
        }
        let adopt = scope.cls_agnostic && step.units.iter().chain(step.stored.iter().flat_map(|s| s.units.iter())).any(|(u, _)| matches!(u, U::Cls | U::Bad(Bad::Surplus)));
        match (&failed, &res) {
            (None, Ok(())) => {
                if resp_in_scope && !adopt && resp != want_resp {
                    return Err(Failure::new("response", format!("step {si} {txt:?}: response {:?}, model says {:?}", escape(&resp), escape(&want_resp))));
                }
            }
            (None, Err(e)) => return Err(Failure::new("spurious-failure", format!("step {si} {txt:?}: fails with {}, the model expects success", e.get_code()))),
            (Some((ui, _)), Ok(())) => return Err(Failure::new("failure-swallowed", format!("step {si} {txt:?}: succeeds although unit {ui} must fail"))),
            (Some((ui, exp)), Err(e)) => {
                let got = item_of(e);
                match exp {
                    Outcome::FailExact(want) => {
                        if *want != got {
                            return Err(Failure::new("wrong-error", format!("step {si} {txt:?}: unit {ui} fails with {got:?}, expected exactly {want:?}")));
                        }
                    }
                    Outcome::FailClass(lo, hi) => {
                        if !(*lo..=*hi).contains(&got.code) {
                            return Err(Failure::new("wrong-error-class", format!("step {si} {txt:?}: unit {ui} fails with {}, expected a code in {lo}..={hi}", got.code)));
                        }
                    }
                    Outcome::Ok(_) => unreachable!(),
                }
                obs.label(if is_command_error(got.code) { "failure: command error" } else if got.code == -222 { "failure: out of range" } else { "failure: handler-raised" });
                let _ = class_bit(got.code);
                m.fail(got);
            }
        }
        // device fields against the model
        if adopt {
            m.queue = dev.queue_snapshot().iter().map(item_of).collect();
            m.esr = dev.esr;
            obs.label("step with *CLS: queue and ESR adopted, not judged");
            continue;
        }
        if scope.queue_and_esr {
            // very long queues (tens of thousands of items): lengths and the newest items after
            // every step, the whole queue every 4096 steps and at the end (keeps the run linear)
            let long = m.queue.len() > 2048 && dev.queue_len() > 2048 && si % 4096 != 0 && si + 1 != h.steps.len();
            let (q, mq): (Vec<Item>, Vec<Item>) = if long {
                if dev.queue_len() != m.queue.len() {
                    return Err(Failure::new("queue-state", format!("step {si} {txt:?}: device queue holds {} items, model {}", dev.queue_len(), m.queue.len())));
                }
                (dev.queue_tail(8).iter().map(item_of).collect(), m.queue.iter().skip(m.queue.len() - 8).cloned().collect())
            } else {
                (dev.queue_snapshot().iter().map(item_of).collect(), m.queue.iter().cloned().collect())
            };
            if q != mq {
                let sig = if step.units.iter().any(|(u, _)| matches!(u, U::Cls)) && !q.is_empty() && mq.is_empty() { "cls-leaves-queue" } else { "queue-state" };
                return Err(Failure::new(sig, format!("step {si} {txt:?}: device queue {:?}, model {:?}", q.iter().map(|i| i.code).collect::<Vec<_>>(), mq.iter().map(|i| i.code).collect::<Vec<_>>())));
            }
            if dev.esr != m.esr {
                return Err(Failure::new("esr-state", format!("step {si} {txt:?}: device ESR {:#04x}, model {:#04x}", dev.esr, m.esr)));
            }
        }
        if scope.registers {
            for (name, d, mm) in [("OPERation", &dev.operation, &m.oper), ("QUEStionable", &dev.questionable, &m.ques)] {
                let dr = RegSet { cond: d.condition, event: d.event, enable: d.enable, ptr: d.ptr_filter, ntr: d.ntr_filter };
                if dr != *mm {
                    let sig = if dr.cond != mm.cond && step.units.iter().any(|(u, _)| matches!(u, U::Pres)) { "preset-touches-condition" } else { "register-state" };
                    return Err(Failure::new(sig, format!("step {si} {txt:?}: {name} registers {}, model {}", show_reg(&dr), show_reg(mm))));
                }
                // the read accessors device code uses say the same as the fields
                if d.get_summary() != mm.summary() {
                    return Err(Failure::new("accessor-summary", format!("step {si} {txt:?}: {name}.get_summary() = {}, registers {}", d.get_summary(), show_reg(&dr))));
                }
                for bit in 0..16 {
                    let mask = 1u16 << bit;
                    if d.get_condition_bit(mask) != (mm.cond & mask != 0) {
                        return Err(Failure::new("accessor-condition-bit", format!("step {si} {txt:?}: {name}.get_condition_bit({mask:#06x}) = {}, condition {:#06x}", d.get_condition_bit(mask), mm.cond)));
                    }
                }
                // ... and so do the trait's generic accessors
                {
                    use scpi_contrib::scpi1999::prelude::{Operation, Questionable, ScpiDevice};
                    let (via, sum) = if name == "OPERation" { (*dev.get_register::<Operation>(), dev.get_register_summary::<Operation>()) } else { (*dev.get_register::<Questionable>(), dev.get_register_summary::<Questionable>()) };
                    if via != *d || sum != mm.summary() {
                        return Err(Failure::new("generic-accessor", format!("step {si} {txt:?}: get_register::<{name}>() = {via:?}, get_register_summary = {sum}; the register is {}", show_reg(&dr))));
                    }
                }
                let multi = mm.cond.rotate_left(3) | 0x0101;
                if d.get_condition_bit(multi) != (mm.cond & multi != 0) {
                    return Err(Failure::new("accessor-condition-bit", format!("step {si} {txt:?}: {name}.get_condition_bit({multi:#06x}) = {}, condition {:#06x}", d.get_condition_bit(multi), mm.cond)));
                }
            }
        }
        if scope.status_byte {
            if (dev.esr, dev.ese, dev.sre) != (m.esr, m.ese, m.sre) {
                return Err(Failure::new("common-register-state", format!("step {si} {txt:?}: device ESR/ESE/SRE = {:#04x}/{:#04x}/{:#04x}, model {:#04x}/{:#04x}/{:#04x}", dev.esr, dev.ese, dev.sre, m.esr, m.ese, m.sre)));
            }
            let dq = dev.queue_len();
            if (dq == 0) != m.queue.is_empty() {
                let sig = if step.units.iter().any(|(u, _)| matches!(u, U::Cls)) { "cls-leaves-queue" } else { "queue-state" };
                return Err(Failure::new(sig, format!("step {si} {txt:?}: device queue holds {dq} items, model {}", m.queue.len())));
            }
            for (name, d, mm) in [("OPERation", &dev.operation, &m.oper), ("QUEStionable", &dev.questionable, &m.ques)] {
                if (d.event, d.enable) != (mm.event, mm.enable) {
                    return Err(Failure::new("register-state", format!("step {si} {txt:?}: {name} event/enable {:#06x}/{:#06x}, model {:#06x}/{:#06x}", d.event, d.enable, mm.event, mm.enable)));
                }
            }
        }
    }
    obs.label_if(stb_rich > 0, "*STB? with >= 3 non-zero inputs");
    obs.label_if(mav_seen[0] && mav_seen[1], "MAV both ways");
    Ok(())
}

// ---------------------------------------------------------------- generators

pub fn reg_strategy() -> impl Strategy<Value = Reg> {
    prop_oneof![Just(Reg::Oper), Just(Reg::Ques)]
}

pub fn u16_value() -> impl Strategy<Value = u16> {
    prop_oneof![
        4 => (0u32..16).prop_map(|b| 1u16 << b),
        2 => any::<u16>(),
        1 => Just(0x7FFFu16),
        1 => Just(0x8000u16),
        1 => Just(0xFFFFu16),
        1 => Just(0u16),
        2 => (0u32..16, 0u32..16).prop_map(|(a, b)| (1u16 << a) | (1u16 << b)),
    ]
}

pub fn u8_value() -> impl Strategy<Value = i32> {
    prop_oneof![
        4 => (0u32..8).prop_map(|b| 1i32 << b),
        2 => 0i32..256,
        1 => Just(255i32),
        1 => Just(0i32),
        1 => prop_oneof![Just(256i32), Just(-1i32), Just(1000i32)],
    ]
}

pub fn dev_event() -> impl Strategy<Value = DevEvent> {
    prop_oneof![
        3 => (reg_strategy(), u16_value()).prop_map(|(r, v)| DevEvent::SetCond(r, v)),
        2 => (reg_strategy(), u16_value()).prop_map(|(r, v)| DevEvent::SetBits(r, v)),
        2 => (reg_strategy(), u16_value()).prop_map(|(r, v)| DevEvent::ClearBits(r, v)),
        1 => reg_strategy().prop_map(DevEvent::ClearEvent),
        1 => reg_strategy().prop_map(DevEvent::PresetOne),
    ]
}

pub fn fail_spec() -> impl Strategy<Value = ErrSpec> {
    prop_oneof![
        3 => (prop_oneof![Just(-100i16), Just(-113), Just(-200), Just(-222), Just(-224), Just(-300), Just(-310), Just(-350), Just(-400), Just(-410), Just(-500), Just(-600), Just(-700), Just(-800)], any::<bool>())
            .prop_map(|(code, extended)| ErrSpec { code, custom: false, extended }),
        2 => (prop_oneof![1i16..1000, -399i16..-300, -32768i16..=-900, Just(0i16), Just(-99i16)], any::<bool>()).prop_map(|(code, extended)| ErrSpec { code, custom: true, extended }),
    ]
}

/// Weighted unit vocabularies.
pub fn unit(weights: [u32; 5]) -> BoxedStrategy<U> {
    let [w_common, w_status, w_queue, w_fail, w_bad] = weights;
    let reg16 = || prop_oneof![6 => u16_value().prop_map(|v| v as i32), 1 => Just(65536i32), 1 => Just(-1i32)];
    prop_oneof![
        w_common => prop_oneof![
            2 => Just(U::Cls), 3 => u8_value().prop_map(U::Ese), 2 => Just(U::EseQ), 3 => Just(U::EsrQ), 1 => Just(U::IdnQ), 2 => Just(U::Opc), 1 => Just(U::OpcQ),
            1 => Just(U::Rst), 3 => u8_value().prop_map(U::Sre), 2 => Just(U::SreQ), 5 => Just(U::StbQ), 1 => Just(U::TstQ), 1 => Just(U::Wai),
        ],
        w_status => prop_oneof![
            4 => reg_strategy().prop_map(U::Ev), 3 => reg_strategy().prop_map(U::Cond),
            3 => (reg_strategy(), reg16()).prop_map(|(r, v)| U::Enab(r, v)), 1 => reg_strategy().prop_map(U::EnabQ),
            3 => (reg_strategy(), reg16()).prop_map(|(r, v)| U::Ntr(r, v)), 1 => reg_strategy().prop_map(U::NtrQ),
            3 => (reg_strategy(), reg16()).prop_map(|(r, v)| U::Ptr(r, v)), 1 => reg_strategy().prop_map(U::PtrQ),
            2 => Just(U::Pres),
        ],
        w_queue => prop_oneof![4 => Just(U::ErrNext), 2 => Just(U::ErrCount), 2 => Just(U::ErrAll), 1 => Just(U::Vers)],
        w_fail => prop_oneof![4 => fail_spec().prop_map(U::Fail), 1 => u8_value().prop_map(U::U8), 1 => u8_value().prop_map(U::U8Q)],
        w_bad => prop_oneof![Just(Bad::Garbage), Just(Bad::UnterminatedString), Just(Bad::UndefinedHeader), Just(Bad::Missing), Just(Bad::Surplus), Just(Bad::WrongType), Just(Bad::OutOfRange), Just(Bad::LoneColon), Just(Bad::UndefinedCommon)].prop_map(U::Bad),
    ]
    .boxed()
}

pub fn history(weights: [u32; 5], max_steps: usize, event_rate: u32) -> impl Strategy<Value = History> {
    let step = (
        proptest::collection::vec(dev_event(), 0..=(event_rate as usize)),
        any::<bool>(),
        prop_oneof![6 => Just(None), 1 => fail_spec().prop_map(Some)],
        prop_oneof![19 => proptest::collection::vec((unit(weights), any::<u8>()), 1..5), 1 => proptest::collection::vec((unit(weights), any::<u8>()), 8..24)],
    )
        .prop_map(|(events, mav, tst, units)| Step { events, mav, tst, units, stored: None });
    // now and then a unit of the step executes a stored message from inside its handler
    let nested_unit = unit(weights).prop_filter("no quotes, no non-ASCII, no bulk read inside a stored message", |u| !matches!(u, U::Bad(Bad::Garbage) | U::Bad(Bad::UnterminatedString) | U::Bad(Bad::WrongType) | U::ErrAll));
    let stored = prop_oneof![
        5 => Just(None),
        1 => (0u8..6, any::<bool>(), proptest::collection::vec((nested_unit, any::<u8>()), 1..4)).prop_map(|(at, strict, units)| Some(Stored { at, strict, units })),
    ];
    let step = (step, stored).prop_map(|(mut s, st)| {
        s.stored = st;
        s
    });
    (any::<bool>(), proptest::collection::vec(step, 1..=max_steps)).prop_map(|(bounded, steps)| History { bounded, steps })
}


/// Histories that build a long error/event queue (more than 255 unread items,
/// up to ~600) on the unbounded queue, with counts, status-byte reads and
/// drains at and around the 256 / 512 marks.
pub fn long_queue_history() -> impl Strategy<Value = History> {
    let filler = prop_oneof![
        4 => fail_spec().prop_map(U::Fail),
        2 => Just(U::Opc),
        2 => prop_oneof![Just(Bad::UndefinedHeader), Just(Bad::Missing), Just(Bad::OutOfRange), Just(Bad::Garbage)].prop_map(U::Bad),
    ];
    (
        prop_oneof![3 => 250usize..262, 2 => 505usize..520, 1 => 262usize..505],
        proptest::collection::vec((filler, any::<u8>(), 0u8..40), 520),
        proptest::collection::vec(prop_oneof![Just(U::ErrCount), Just(U::StbQ), Just(U::ErrNext), Just(U::ErrAll), Just(U::EsrQ), Just(U::SreQ)], 3..12),
        any::<u8>(),
    )
        .prop_map(|(n, fillers, tail, sre)| {
            let mut steps: Vec<Step> = vec![Step { events: vec![], mav: false, tst: None, units: vec![(U::Sre((sre | 4) as i32), 0), (U::Ese(255), 0)], stored: None }];
            for (i, (u, style, probe)) in fillers.into_iter().take(n).enumerate() {
                steps.push(Step { events: vec![], mav: false, tst: None, units: vec![(u, style)], stored: None });
                // look at the count / status byte now and then, and always around the 256 and 512 marks
                let near = (250..262).contains(&i) || (505..520).contains(&i);
                if probe == 0 || near {
                    steps.push(Step { events: vec![], mav: probe & 1 == 1, tst: None, units: vec![(U::ErrCount, style), (U::StbQ, style)], stored: None });
                }
            }
            for u in tail {
                steps.push(Step { events: vec![], mav: false, tst: None, units: vec![(u, 0)], stored: None });
            }
            History { bounded: false, steps }
        })
}

/// A compact description of a history that builds a queue of `n` unread items
/// (beyond 16-bit counts) with count / status-byte reads at the 2^8, 2^16 (and
/// 2^17) marks and a partial drain at the end; expanded by `huge_queue`.
#[derive(Clone, Copy, Debug, PartialEq, Eq, Hash, Serialize, Deserialize)]
pub struct Huge {
    pub n: u32,
    pub variant: u8,
}

pub fn huge_queue(h: &Huge) -> History {
    let one = |u: U| Step { events: vec![], mav: false, tst: None, units: vec![(u, 0)], stored: None };
    let mut steps: Vec<Step> = vec![Step { events: vec![], mav: false, tst: None, units: vec![(U::Sre(4), 0), (U::Ese(255), 0)], stored: None }];
    for i in 0..h.n {
        steps.push(one(match (i + h.variant as u32) % 3 {
            0 => U::Fail(ErrSpec { code: -100 - ((i % 4) as i16) * 100, custom: false, extended: false }),
            1 => U::Opc,
            _ => U::Bad(Bad::UndefinedHeader),
        }));
        let c = i + 1;
        if matches!(c, 255 | 256 | 257 | 65534..=65538 | 131070..=131074) || c == h.n {
            steps.push(Step { events: vec![], mav: c & 1 == 1, tst: None, units: vec![(U::ErrCount, 0), (U::StbQ, 0)], stored: None });
        }
    }
    for u in [U::ErrNext, U::ErrNext, U::ErrCount, U::StbQ, U::EsrQ, U::ErrNext, U::ErrCount] {
        steps.push(one(u));
    }
    History { bounded: false, steps }
}

pub fn huge_cases(thorough: bool) -> Vec<Huge> {
    if thorough {
        vec![Huge { n: 65540, variant: 0 }, Huge { n: 65540, variant: 1 }, Huge { n: 70000, variant: 2 }, Huge { n: 131080, variant: 0 }]
    } else {
        vec![Huge { n: 65540, variant: 0 }, Huge { n: 66000, variant: 1 }]
    }
}
