//! C07 — integer parameters convert to the exactly rounded value or a range error.
use crate::conv::{int_ty_strategy, lex_single, IntTy};
use crate::engine::{CheckResult, Engine, Obs, PropertyMeta};
use crate::gen::lit::{around_int, frac_strategy, style_strategy, wide_literal, zero_literal, Style};
use crate::model::dec::{self, int_oracle};
use crate::model::esr::is_command_error;
use crate::model::mnemonic::keyword_matches;
use crate::{ensure, fail};
use proptest::prelude::*;
use scpi::parser::tokenizer::Token;
use serde::{Deserialize, Serialize};

pub fn meta() -> PropertyMeta {
    PropertyMeta {
        id: "C07",
        level: "exploration",
        rule: "literals are built from values: for each of the ten integer types, every bound B in {MIN, MAX, 0, 2^24, 2^53, powers of ten, random in range} plus offsets -3..3 plus a fraction on / just below / just above one half (or .4, .6, none, random digits), rendered in every NR1/NR2/NR3 spelling (signs, leading/trailing zeros, bare dot, exponent shifts, E/e); plus zero in every spelling, wide random literals (1..40 digits, exponent -420..420), non-decimal #H/#Q/#B literals over the whole u64 range and (as text) 2^64..2^128, which must be rejected, MIN/MAX keywords and near misses, suffixed and non-numeric elements. For 8/16-bit targets every integer in range (+-2) x fractions {none,.0,.4,.5,.6,.49999,.50001,.49999999999999994,.49999997} x two spellings is enumerated exhaustively. Oracle: exact decimal arithmetic. Added: magnitudes drawn log-uniformly over every bit length; exponent fields at the limits of 32/64-bit arithmetic; up to 520 leading zeros in non-decimal literals; EVERY letter string up to 4 (5) characters as a character datum of every integer type; libFuzzer target c07_dec on decimal text (thorough). Non-trivial: value within 2 of a type bound, or within 1 of zero with a fractional part, or spelled with an exponent or a bare dot, or a 64-bit value needing more than 53 bits.",
        assumptions: &[
            "admissible results: the exact rounding of the literal (both neighbours at an exact tie) and the exact rounding of its correctly rounded intermediate float (f64; f32 as well for 8/16-bit targets) -- i.e. exact up to the resolution of that float; all admissible integers in range => must be Ok(one of them); all out of range => must be -222; otherwise either",
            "a non-keyword character datum must be rejected with an error (any code), a suffixed / string / block / expression element with a command error",
        ],
        run,
    }
}

#[derive(Clone, Debug, Serialize, Deserialize, Hash)]
pub enum Case {
    Decimal { ty: IntTy, lit: String },
    NonDecimal { ty: IntTy, radix: char, value: u64, lower: bool },
    /// a non-decimal literal denoting a value above u64::MAX (digits as text)
    NonDecimalHuge { radix: char, digits: String },
    Keyword { ty: IntTy, word: String },
    Suffixed { ty: IntTy, lit: String, suffix: String },
    Other { ty: IntTy, kind: u8, payload: String },
}

pub fn check_decimal(ty: IntTy, lit: &str, obs: &Obs, key: &Case) -> CheckResult {
    let Some(d) = dec::parse(lit.as_bytes()) else {
        fail!("harness-literal", "generator produced {lit:?}, which the reference reader does not accept");
    };
    let (min, max) = ty.range();
    let or = int_oracle(&d, lit, ty.inter(), min, max);
    // classification
    let near_bound = d.ip.map_or(false, |ip| {
        let ip = ip as i128;
        let m = if d.neg { -ip } else { ip };
        (m - max).abs() <= 2 || (m - min).abs() <= 2
    });
    let near_zero_frac = d.ip.map_or(false, |ip| ip <= 1) && d.has_fraction();
    let has_exp = lit.contains(['e', 'E']);
    let body = lit.trim_start_matches(['+', '-']);
    let bare_dot = body.starts_with('.') || body.split(['e', 'E']).next().unwrap().ends_with('.');
    let wide64 = ty.bits() == 64 && d.ip.map_or(false, |ip| ip >= 1u128 << 53 && ip < 1u128 << 65);
    obs.nontrivial_if(near_bound || near_zero_frac || has_exp || bare_dot || wide64, key);
    obs.label("decimal literal");
    obs.label_if(near_bound, "within 2 of a type bound");
    obs.label_if(d.is_zero(), "zero spelling");
    obs.label_if(d.frac == b"5" && !d.sticky, "exact tie");
    obs.label_if(has_exp, "exponent spelling");
    obs.label_if(bare_dot, "bare dot");
    obs.label_if(wide64, "64-bit needing > 53 bits");
    obs.label_if(or.must_be_ok(), "oracle: must convert");
    obs.label_if(or.must_be_err(), "oracle: must be -222");
    obs.label_if(or.err_ok() && !or.must_be_err(), "oracle: straddles a bound");

    let tok = Token::DecimalNumericProgramData(lit.as_bytes());
    let res = ty.convert(tok);
    match &res {
        Ok(n) => {
            if !or.admits_ok(*n) {
                if or.must_be_err() {
                    fail!("accepted-out-of-range", "{}::try_from({lit}) = Ok({n}); the value is outside {min}..={max}, -222 required", ty.name());
                }
                fail!("wrong-value", "{}::try_from({lit}) = Ok({n}); admissible (exact rounding of the literal / of its nearest float): {}", ty.name(), or.describe());
            }
        }
        Err(e) => {
            if e.get_code() != -222 {
                fail!("wrong-error-code", "{}::try_from({lit}) = Err({}); only -222 may reject a decimal literal", ty.name(), e.get_code());
            }
            if !or.err_ok() {
                fail!("spurious-range-error", "{}::try_from({lit}) = Err(-222) although {} is representable", ty.name(), or.describe());
            }
        }
    }
    // the same literal through the lexer
    match lex_single(lit.as_bytes()) {
        Some(t) if t == tok => {
            let again = ty.convert(t);
            ensure!(again == res, "lexer-path-differs", "conversion of lexed {lit} gives {again:?}, direct gives {res:?}");
        }
        _ => obs.label("lexer does not return the literal as one decimal token"),
    }
    Ok(())
}

/// Fuzz decoding: first byte selects the integer type, the rest is a decimal
/// literal (`None` unless the reference reader accepts the spelling).
pub fn decode_text(data: &[u8]) -> Option<Case> {
    let (k, rest) = data.split_first()?;
    let lit = std::str::from_utf8(rest).ok()?;
    // only what the lexer itself hands to a conversion as one decimal element
    if crate::conv::lex_single(rest) != Some(Token::DecimalNumericProgramData(rest)) {
        return None;
    }
    if lit.len() > 400 || dec::parse(rest).is_none() {
        return None;
    }
    Some(Case::Decimal { ty: IntTy::ALL[*k as usize % IntTy::ALL.len()], lit: lit.to_string() })
}

pub fn check(case: &Case, obs: &Obs) -> CheckResult {
    match case {
        Case::Decimal { ty, lit } => check_decimal(*ty, lit, obs, case),
        Case::NonDecimal { ty, radix, value, lower } => {
            obs.label("non-decimal literal");
            let (_, max) = ty.range();
            let fits = (*value as i128) <= max;
            obs.nontrivial_if((*value as i128 - max).abs() <= 2 || *value > 1 << 53, case);
            let res = ty.convert(Token::NonDecimalNumericProgramData(*value));
            match res {
                Ok(n) => ensure!(fits && n == *value as i128, "nondecimal-value", "{}::try_from(#{radix} {value}) = Ok({n})", ty.name()),
                Err(e) => ensure!(!fits && e.get_code() == -222, "nondecimal-value", "{}::try_from(#{radix} {value}) = Err({}), fits={fits}", ty.name(), e.get_code()),
            }
            // through the lexer: the text must carry the exact value
            let digits = match radix {
                'H' => format!("{value:X}"),
                'Q' => format!("{value:o}"),
                _ => format!("{value:b}"),
            };
            let mut text = format!("#{radix}{digits}");
            if *lower {
                text.make_ascii_lowercase();
            }
            // ... also with leading zeros (their number derived from the value: 0..3, now and then up to 520)
            let z = match value % 16 {
                0..=9 => (value % 3) as usize,
                10..=13 => (value % 67) as usize,
                _ => [190usize, 240, 250, 255, 256, 257, 300, 520][(*value as usize >> 4) % 8],
            };
            for zeros in [0, z] {
                let t = format!("{}{}{}", &text[..2], "0".repeat(zeros), &text[2..]);
                match lex_single(t.as_bytes()) {
                    Some(Token::NonDecimalNumericProgramData(v)) => {
                        ensure!(v == *value, "nondecimal-lex", "{t} lexed to value {v}, denotes {value}");
                    }
                    other => fail!("nondecimal-lex", "{t} lexed to {other:?}"),
                }
            }
            Ok(())
        }
        Case::NonDecimalHuge { radix, digits } => {
            obs.label("non-decimal literal above u64::MAX");
            obs.nontrivial(case);
            let r = match radix { 'H' => 16, 'Q' => 8, _ => 2 };
            let denotes = u128::from_str_radix(digits, r).ok();
            if denotes.map_or(false, |v| v <= u64::MAX as u128) {
                fail!("harness-literal", "generated 'huge' literal {digits} fits u64");
            }
            let text = format!("#{radix}{digits}");
            if let Some(Token::NonDecimalNumericProgramData(v)) = lex_single(text.as_bytes()) {
                fail!("nondecimal-wrapped", "{text} denotes a value above u64::MAX but is lexed as the literal {v} instead of being rejected");
            }
            // also in a parameter list, where the tokenizer carries on after the element
            let text2 = format!("{text},1");
            let first = scpi::parser::tokenizer::Tokenizer::new_params(text2.as_bytes()).next();
            if let Some(Ok(Token::NonDecimalNumericProgramData(v))) = first {
                fail!("nondecimal-wrapped", "{text2}: first element lexed as the literal {v}");
            }
            Ok(())
        }
        Case::Keyword { ty, word } => {
            obs.label("character datum");
            let (min, max) = ty.range();
            let is_max = keyword_matches(b"MAXimum", word.as_bytes());
            let is_min = keyword_matches(b"MINimum", word.as_bytes());
            obs.nontrivial_if(true, case);
            let res = ty.convert(Token::CharacterProgramData(word.as_bytes()));
            match res {
                Ok(n) => {
                    ensure!(is_max || is_min, "keyword-accepted", "{}::try_from({word}) = Ok({n}) for a non-keyword", ty.name());
                    let want = if is_max { max } else { min };
                    ensure!(n == want, "keyword-value", "{}::try_from({word}) = Ok({n}), type bound is {want}", ty.name());
                }
                Err(e) => {
                    ensure!(!(is_max || is_min), "keyword-rejected", "{}::try_from({word}) = Err({})", ty.name(), e.get_code());
                }
            }
            Ok(())
        }
        Case::Suffixed { ty, lit, suffix } => {
            obs.label("suffixed literal");
            let res = ty.convert(Token::DecimalNumericSuffixProgramData(lit.as_bytes(), suffix.as_bytes()));
            match res {
                Ok(n) => fail!("suffix-accepted", "{}::try_from({lit} {suffix}) = Ok({n})", ty.name()),
                Err(e) => ensure!(is_command_error(e.get_code()), "suffix-error-class", "{}::try_from({lit} {suffix}) = Err({}), not a command error", ty.name(), e.get_code()),
            }
            Ok(())
        }
        Case::Other { ty, kind, payload } => {
            obs.label("non-numeric element");
            let p = payload.as_bytes();
            let tok = match kind {
                0 => Token::StringProgramData(p),
                1 => Token::ArbitraryBlockData(p),
                _ => Token::ExpressionProgramData(p),
            };
            match ty.convert(tok) {
                Ok(n) => fail!("non-numeric-accepted", "{}::try_from({tok:?}) = Ok({n})", ty.name()),
                Err(e) => ensure!(is_command_error(e.get_code()), "non-numeric-error-class", "{}::try_from({tok:?}) = Err({})", ty.name(), e.get_code()),
            }
            Ok(())
        }
    }
}

fn base_strategy(ty: IntTy) -> BoxedStrategy<i128> {
    let (min, max) = ty.range();
    prop_oneof![
        5 => Just(max),
        4 => Just(min),
        2 => Just(0i128),
        1 => Just(max / 2),
        1 => Just(1i128 << 24),
        1 => Just(1i128 << 53),
        1 => Just(-(1i128 << 53)),
        1 => Just(1i128 << 63),
        1 => Just(1i128 << 64),
        1 => (0u32..21).prop_map(|k| 10i128.pow(k)),
        1 => (0u32..20).prop_map(|k| -(10i128.pow(k))),
        2 => (min..=max),
        // log-uniform magnitudes: every bit length equally often (thresholds such as
        // 2^24, 10^15, 2^50..2^53 sit at particular magnitudes, not at the type bounds)
        4 => (0u32..66, any::<u64>(), any::<bool>()).prop_map(move |(bits, r, neg)| {
            let m: i128 = if bits == 0 { 0 } else { ((1u128 << (bits - 1)) | (r as u128 & ((1u128 << (bits - 1)) - 1))) as i128 };
            let v = if neg { -m } else { m };
            // keep it within two units of the type's range so that the rounding path, not only the range test, is exercised
            v.clamp(min - 2, max + 2)
        }),
    ]
    .boxed()
}

fn decimal_case() -> impl Strategy<Value = Case> {
    int_ty_strategy()
        .prop_flat_map(|ty| (Just(ty), base_strategy(ty), -3i128..=3, any::<bool>(), frac_strategy(), style_strategy(25)))
        .prop_map(|(ty, base, k, neg_zero, frac, st)| Case::Decimal { ty, lit: around_int(base + k, neg_zero, &frac, &st) })
}

fn case_strategy() -> impl Strategy<Value = Case> {
    prop_oneof![
        60 => decimal_case(),
        6 => (int_ty_strategy(), zero_literal()).prop_map(|(ty, lit)| Case::Decimal { ty, lit }),
        12 => (int_ty_strategy(), wide_literal()).prop_map(|(ty, lit)| Case::Decimal { ty, lit }),
        1 => (int_ty_strategy(), crate::gen::lit::compensated_exponent_literal()).prop_map(|(ty, lit)| Case::Decimal { ty, lit }),
        2 => (int_ty_strategy(), crate::gen::lit::extreme_exponent_literal()).prop_map(|(ty, lit)| Case::Decimal { ty, lit }),
        8 => (int_ty_strategy(), prop_oneof![Just('H'), Just('Q'), Just('B')], nondecimal_value(), any::<bool>())
            .prop_map(|(ty, radix, value, lower)| Case::NonDecimal { ty, radix, value, lower }),
        2 => nondecimal_huge(),
        4 => (int_ty_strategy(), keyword()).prop_map(|(ty, word)| Case::Keyword { ty, word }),
        3 => (int_ty_strategy(), wide_literal(), "[A-Za-z][A-Za-z0-9]{0,5}").prop_map(|(ty, lit, suffix)| Case::Suffixed { ty, lit, suffix }),
        3 => (int_ty_strategy(), 0u8..3, "[ -~]{0,8}").prop_map(|(ty, kind, payload)| Case::Other { ty, kind, payload }),
        1 => (int_ty_strategy(), 0u8..3, prop_oneof![keyword(), "[0-9]{1,3}".prop_map(|s| s)]).prop_map(|(ty, kind, payload)| Case::Other { ty, kind, payload }),
    ]
}

/// Non-decimal text denoting 2^64 .. 2^72: every leading digit, just above the limit, many digits.
fn nondecimal_huge() -> impl Strategy<Value = Case> {
    (prop_oneof![Just('H'), Just('Q'), Just('B')], prop_oneof![
        3 => (0u128..1 << 8, any::<u64>()).prop_map(|(hi, lo)| ((hi.max(1)) << 64) | lo as u128),
        2 => (0u64..4).prop_map(|k| (1u128 << 64) + k as u128),
        2 => (1u128..8, 0u32..3, any::<u64>()).prop_map(|(d, k, lo)| (d << (63 + k)) | (lo as u128 >> 2)),
        1 => Just(u128::MAX),
    ], 0usize..3)
        .prop_map(|(radix, v, zeros)| {
            let v = v.max(1u128 << 64);
            let digits = match radix { 'H' => format!("{v:X}"), 'Q' => format!("{v:o}"), _ => format!("{v:b}") };
            Case::NonDecimalHuge { radix, digits: format!("{}{digits}", "0".repeat(zeros)) }
        })
}

fn nondecimal_value() -> impl Strategy<Value = u64> {
    prop_oneof![
        2 => any::<u64>(),
        2 => (0u32..65, -2i64..=2).prop_map(|(b, k)| (if b == 64 { u64::MAX } else { (1u64 << b).wrapping_sub(1) }).wrapping_add(k as u64)),
        1 => 0u64..300,
    ]
}

pub fn keyword() -> impl Strategy<Value = String> {
    let words = ["MAXimum", "MINimum", "MAX", "MIN", "MAXI", "MINI", "MAXIMU", "MINIMU", "MAXIMUMS", "MINIMUMX", "MA", "MI", "M", "DEFault", "UP", "DOWN", "INF", "NAN", "ON", "OFF", "MAX1", "MIN0"];
    prop_oneof![
        4 => (0usize..words.len(), 0u8..3).prop_map(move |(i, c)| {
            let w = words[i].to_string();
            match c { 0 => w, 1 => w.to_ascii_lowercase(), _ => w.to_ascii_uppercase() }
        }),
        1 => "[A-Za-z][A-Za-z0-9_]{0,11}",
    ]
}

fn grid_frac() -> [&'static str; 9] {
    ["", "0", "4", "5", "6", "49999", "50001", "49999999999999994", "49999997"]
}

fn run(e: &Engine) {
    e.proptest("value-directed-literals", e.tier.pick(4_000_000, 60_000_000), case_strategy, check);
    e.require_fraction("within 2 of a type bound", "decimal literal", 0.25);
    e.require_fraction("zero spelling", "decimal literal", 0.03);
    e.require_fraction("oracle: must be -222", "decimal literal", 0.05);
    e.require_fraction("oracle: must convert", "decimal literal", 0.3);
    // exhaustive grid for the 8- and 16-bit targets
    let small = [IntTy::I8, IntTy::U8, IntTy::I16, IntTy::U16];
    e.enumerate::<Case, _, _>(
        "grid-8-16-bit",
        small.len() as u64 * 16,
        |part, f| {
            let ty = small[(part / 16) as usize];
            let slice = (part % 16) as i128;
            let (min, max) = ty.range();
            let (lo, hi) = (min - 2, max + 2);
            let span = hi - lo + 1;
            let (a, b) = (lo + span * slice / 16, lo + span * (slice + 1) / 16);
            let mut sci = Style::plain();
            sci.exp_shift = 2;
            sci.exp_upper = true;
            sci.zero_int = false;
            for n in a..b {
                for frac in grid_frac() {
                    for st in [&Style::plain(), &sci] {
                        for neg_zero in [false, true] {
                            if neg_zero && n != 0 {
                                continue;
                            }
                            if !f(Case::Decimal { ty, lit: around_int(n, neg_zero, frac, st) }) {
                                return;
                            }
                        }
                    }
                }
            }
        },
        check,
    );
    if e.tier == crate::engine::Tier::Thorough {
        // coverage-guided: arbitrary decimal spellings against the exact-arithmetic oracle
        e.fuzz("fuzz-c07_dec", "c07_dec", 64_000_000, |b| decode_text(b).unwrap_or(Case::Decimal { ty: IntTy::U8, lit: "0".into() }), check);
    }
    // bounded-exhaustive: EVERY letter string up to a length as a character datum for every integer
    // type (only the MINimum / MAXimum forms may convert; anything else must be rejected)
    const LETTERS: &[u8] = b"ABCDEFGHIJKLMNOPQRSTUVWXYZ";
    let kw = crate::gen::enumstr::Partitioned { alpha: LETTERS, max_len: if cfg!(debug_assertions) { e.tier.pick(3usize, 4) } else { e.tier.pick(4usize, 5) }, prefix_len: 2 };
    let kwr = &kw;
    e.enumerate::<Case, _, _>(
        "every-letter-string-as-keyword",
        kw.parts() * IntTy::ALL.len() as u64,
        move |p, f| {
            let ty = IntTy::ALL[(p / kwr.parts()) as usize];
            kwr.run(p % kwr.parts(), &mut |s| s.is_empty() || f(Case::Keyword { ty, word: String::from_utf8_lossy(s).into_owned() }))
        },
        check,
    );
    // keyword chimeras as character data for every integer type
    let chim: Vec<Case> = crate::model::mnemonic::keyword_chimeras().into_iter().flat_map(|w| IntTy::ALL.into_iter().map(move |ty| Case::Keyword { ty, word: w.clone() })).collect();
    e.fixed("keyword-chimeras", chim, check);
}
