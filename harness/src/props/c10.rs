//! C10 — responses are framed exactly: `;` between units, `,` between data, one final NL.
use crate::bytes::escape;
use crate::engine::{CheckResult, Engine, Obs, PropertyMeta};
use crate::fixtree::{fixed_header, FIXTREE};
use crate::gen::msg::*;
use crate::gen::plan::succeeding_plans;
use crate::rec::{LogDev, UnitPlan};
use crate::{ensure, fail};
use arrayvec::ArrayVec;
use proptest::prelude::*;
use scpi::Context;
use serde::{Deserialize, Serialize};

pub fn meta() -> PropertyMeta {
    PropertyMeta {
        id: "C10",
        level: "exploration",
        rule: "successful messages by construction: 1..6 units on a fixed tree, any interleaving of commands and queries, each query responding with 1..5 data of random kinds (integers, bool, strings with quotes/separators/NL, blocks, character and expression data) and 0..2 response headers, all seven message endings (end of input, NL, white space, white space + NL, trailing ';', ';' + NL, ';' + white space), white space around ';' and ','. Oracle: expected buffer assembled independently from the plans (independent encoder per datum). Compared for Vec<u8> and ArrayVec<u8, 4096>. Added (fixed cases): 2^16 +- 1 data elements in one response unit, blocks of 10^k +- 1 bytes up to 10^7, blocks and strings ending in NL / CR / ';', lists handed over as ONE datum (Vec / ArrayVec of character data) with every pattern of empty and non-empty items up to 4 items, alone and between other data. Now and then the first response header starts with '*' (a common command header in a learn string). Non-trivial: at least two queries with a command between or after them, or an ending other than plain end of input.",
        assumptions: &["every query emits at least one datum (a query that writes nothing is outside the property's quantifier)"],
        run,
    }
}

#[derive(Clone, Debug, Serialize, Deserialize, Hash)]
pub struct Case {
    pub msg: Msg,
    pub plans: Vec<UnitPlan>,
}

pub fn expected_response(msg: &Msg, plans: &[UnitPlan]) -> Vec<u8> {
    let mut out: Vec<u8> = Vec::new();
    let mut any = false;
    for (u, p) in msg.units.iter().zip(plans) {
        if !u.header.query {
            continue;
        }
        if any {
            out.push(b';');
        }
        any = true;
        for (i, h) in p.headers.iter().enumerate() {
            if i > 0 {
                out.push(b':');
            }
            out.extend_from_slice(h);
        }
        for (i, d) in p.respond.iter().enumerate() {
            if i > 0 {
                out.push(b',');
            } else if !p.headers.is_empty() {
                out.push(b' ');
            }
            d.encode(&mut out);
        }
    }
    // no query wrote anything: nothing at all, in particular no terminator
    if plans.iter().zip(msg.units.iter()).all(|(p, u)| !u.header.query || (p.headers.is_empty() && p.respond.is_empty())) {
        return Vec::new();
    }
    if any {
        out.push(b'\n');
    }
    out
}

pub fn check(case: &Case, obs: &Obs) -> CheckResult {
    let r = case.msg.render();
    let txt = escape(&r.bytes);
    let want = expected_response(&case.msg, &case.plans);
    let queries = case.msg.units.iter().filter(|u| u.header.query).count();
    let cmd_after_query = case.msg.units.iter().skip_while(|u| !u.header.query).any(|u| !u.header.query);
    obs.label_if(queries == 0, "message without queries");
    obs.label_if(queries >= 2, "two or more queries");
    obs.label(match case.msg.ending {
        Ending::None => "ending: end of input",
        Ending::Nl => "ending: NL",
        Ending::Ws => "ending: white space",
        Ending::WsNl => "ending: white space NL",
        Ending::Semi => "ending: ;",
        Ending::SemiNl => "ending: ; NL",
        Ending::SemiWs => "ending: ; white space",
    });
    obs.nontrivial_if((queries >= 2 && cmd_after_query) || case.msg.ending != Ending::None, case);
    // growable buffer
    let mut dev = LogDev::with_plan(case.plans.clone());
    let mut ctx = Context::default();
    let mut resp: Vec<u8> = Vec::new();
    if let Err(e) = FIXTREE.run(&r.bytes, &mut dev, &mut ctx, &mut resp) {
        fail!("run-failed", "{txt:?}: a message built to succeed fails with {}", e.get_code());
    }
    ensure!(dev.calls.len() == case.msg.units.len(), "run-calls", "{txt:?}: {} handlers for {} units", dev.calls.len(), case.msg.units.len());
    if resp != want {
        let sig = if matches!(case.msg.ending, Ending::Semi | Ending::SemiNl | Ending::SemiWs) && resp.len() + 1 == want.len() && want.starts_with(&resp) { "missing-terminator-after-trailing-semicolon" } else { "framing" };
        fail!(sig, "{txt:?}: response {:?}, expected {:?}", escape(&resp), escape(&want));
    }
    // fixed buffer, large enough
    let mut dev2 = LogDev::with_plan(case.plans.clone());
    let mut arr: ArrayVec<u8, 4096> = ArrayVec::new();
    match FIXTREE.run(&r.bytes, &mut dev2, &mut ctx, &mut arr) {
        Ok(()) => ensure!(arr.as_slice() == &want[..], "framing-arrayvec", "{txt:?}: ArrayVec response {:?}, expected {:?}", escape(arr.as_slice()), escape(&want)),
        Err(e) => {
            if want.len() <= 4096 {
                fail!("run-failed", "{txt:?}: ArrayVec<4096> run fails with {}", e.get_code());
            }
        }
    }
    // a foreign formatter that wraps a buffer sees the framing protocol: message_start once and before any
    // output, one response_unit per executed query, message_end once iff something was written - and
    // ends up with the same bytes
    if want.len() <= 4096 {
        let (res, buf, starts, units, ends, len_at_start) = crate::props::c05::control_call_counts(&r.bytes, &case.plans);
        ensure!(res.is_ok() && buf == want, "framing-foreign-formatter", "{txt:?}: through a wrapping formatter: {:?}, {:?}; expected {:?}", res.map_err(|e| e.get_code()), escape(&buf), escape(&want));
        ensure!(starts == 1 && len_at_start == 0, "formatter-protocol", "{txt:?}: message_start was called {starts} times (buffer held {len_at_start} bytes at the last call)");
        ensure!(units == queries, "formatter-protocol", "{txt:?}: response_unit was called {units} times for {queries} query units");
        ensure!(ends == (!want.is_empty()) as usize, "formatter-protocol", "{txt:?}: message_end was called {ends} times for a response of {} bytes", want.len());
        // a transmit buffer that message_start resets, used for two messages in a row: this message, then
        // (a) a message without queries -> nothing at all, (b) this message again -> its response once
        let (ra, buf_a, rb, buf_b) = crate::props::c05::two_messages_clearing_formatter(&r.bytes, &case.plans, b"*X;:A", &[]);
        ensure!(ra.is_ok() && buf_a == want, "framing-foreign-formatter", "{txt:?}: through a resetting formatter: {:?}, expected {:?}", escape(&buf_a), escape(&want));
        ensure!(rb.is_ok() && buf_b.is_empty(), "framing-after-previous-response", "{txt:?} then \"*X;:A\" through a formatter that message_start resets: the buffer holds {:?} after the message without queries", escape(&buf_b));
        let (_, _, rb, buf_b) = crate::props::c05::two_messages_clearing_formatter(&r.bytes, &case.plans, &r.bytes, &case.plans);
        ensure!(rb.is_ok() && buf_b == want, "framing-after-previous-response", "{txt:?} twice through a formatter that message_start resets: the buffer holds {:?}, expected {:?}", escape(&buf_b), escape(&want));
    }
    Ok(())
}

fn case_strategy() -> impl Strategy<Value = Case> {
    // queries with probability 1/2; an indefinite block at the end is fine (consumed greedily)
    crate::fixtree::fixed_message(any::<bool>().boxed(), 6, 3, true, true).prop_flat_map(|msg| {
        let plans = succeeding_plans(&msg);
        // now and then every query of the message is silent (its handler writes neither header nor
        // data, e.g. a list query over an empty list): no output at all, so no terminator either.
        // (A silent query next to one that does write is not generated: the property does not say
        // whether the silent unit counts as a response unit between the separators.)
        (Just(msg), plans, prop_oneof![15 => Just(false), 1 => Just(true)]).prop_map(|(msg, mut plans, silent)| {
            if silent {
                for p in plans.iter_mut() {
                    p.headers.clear();
                    p.respond.clear();
                }
            }
            Case { msg, plans }
        })
    })
}

fn run(e: &Engine) {
    // size boundaries: 2^16 +- 1 data elements in one response unit, blocks of 10^k +- 1 bytes, blocks ending in NL
    if !cfg!(debug_assertions) {
        let cases: Vec<Case> = crate::fixtree::size_boundary_plans().into_iter().map(|plans| Case { msg: crate::fixtree::query_message(1), plans }).collect();
        e.fixed("size-boundary-responses", cases, check);
    }
    e.proptest("response-framing", e.tier.pick(300_000, 10_000_000), case_strategy, check);
    e.require_fraction("two or more queries", "ending: NL", 1.0);
    for l in ["ending: ;", "ending: ; NL", "ending: ; white space", "message without queries"] {
        if !e.replay_only && !e.failed() && e.label_count(l) < 1000 {
            e.harness_error(format!("generator unhealthy: only {} cases labelled {l:?}", e.label_count(l)));
        }
    }
}
