//! C20 — derived enums map mnemonics to variants and back consistently.
use crate::conv::lex_single;
use crate::engine::{CheckResult, Engine, Obs, PropertyMeta};
use crate::model::mnemonic::{self, Verdict};
use crate::model::resp::is_character_data;
use crate::{ensure, fail};
use proptest::prelude::*;
use scpi::error::Error;
use scpi::option::ScpiEnum;
use scpi::parser::response::ResponseData;
use scpi::parser::tokenizer::Token;
use serde::{Deserialize, Serialize};

pub fn meta() -> PropertyMeta {
    PropertyMeta {
        id: "C20",
        level: "exploration",
        rule: "a build script generates 4 corpora x 120 enum definitions (1..9 variants, unit and single-field variants, mnemonics with and without numeric suffix, siblings differing only in the suffix, all-caps-with-digits, 1- and 12-character mnemonics, shared prefixes; pairwise non-matching by the reference matcher) each with #[derive(ScpiEnum)]; quick uses corpus 0, thorough all four. For each enum: candidates derived from every variant mnemonic (short/long form, every prefix, one-character extensions, case flips, suffix variants) and random character data up to 12 characters; every other element kind; every variant formatted and parsed back. Oracle: reference matcher over the enum's own mnemonic table. Non-trivial: the enum has suffix siblings, or the candidate matches a different variant than the one it was derived from, or a round trip of a suffixed variant.",
        assumptions: &[
            "quantifies over the generated corpus, not over all Rust enums (seed recorded in the evidence notes)",
            "candidates whose suffix differs from a variant's only by leading zeros are not judged",
        ],
        run,
    }
}

pub struct EnumInfo {
    pub name: &'static str,
    pub corpus: u64,
    pub mnemonics: &'static [&'static [u8]],
    pub from_mnemonic: fn(&[u8]) -> Option<usize>,
    pub try_from: fn(Token) -> Result<usize, Error>,
    pub mnemonic: fn(usize) -> &'static [u8],
    pub short_form: fn(usize) -> &'static [u8],
    pub format: fn(usize) -> Result<Vec<u8>, Error>,
}

fn fmt_enum<T: ResponseData>(v: &T) -> Result<Vec<u8>, Error> {
    #[cfg(feature = "full")]
    let mut buf: Vec<u8> = Vec::new();
    #[cfg(not(feature = "full"))]
    let mut buf: arrayvec::ArrayVec<u8, 64> = arrayvec::ArrayVec::new();
    v.format_response_data(&mut buf)?;
    Ok(buf.to_vec())
}

#[allow(clippy::all)]
mod corpus {
    use super::{fmt_enum, EnumInfo};
    use scpi::option::ScpiEnum;
    include!(concat!(env!("OUT_DIR"), "/enum_corpus.rs"));
}
pub use corpus::{CORPUS, ENUM_SEED};

#[derive(Clone, Debug, Serialize, Deserialize, Hash)]
pub enum Case {
    Candidate { e: usize, cand: String },
    Other { e: usize, kind: u8, text: String },
    RoundTrip { e: usize, v: usize },
}

fn expected(info: &EnumInfo, cand: &[u8]) -> Result<Option<usize>, ()> {
    let mut hit = None;
    let mut unclear = false;
    for (i, m) in info.mnemonics.iter().enumerate() {
        match mnemonic::matches(m, cand) {
            Verdict::Match => {
                if hit.is_some() {
                    return Err(()); // corpus not pairwise non-matching: harness defect
                }
                hit = Some(i);
            }
            Verdict::NoClaim => unclear = true,
            Verdict::NoMatch => {}
        }
    }
    if hit.is_none() && unclear {
        return Err(());
    }
    Ok(hit)
}

fn has_siblings(info: &EnumInfo) -> bool {
    let alphas: Vec<&[u8]> = info.mnemonics.iter().map(|m| mnemonic::split_suffix(m).0).collect();
    (0..alphas.len()).any(|i| (0..i).any(|j| alphas[i].eq_ignore_ascii_case(alphas[j])))
}

pub fn check(case: &Case, obs: &Obs) -> CheckResult {
    match case {
        Case::Candidate { e, cand } => {
            let info = &CORPUS[*e % CORPUS.len()];
            let c = cand.as_bytes();
            let want = match expected(info, c) {
                Ok(w) => w,
                Err(()) => {
                    obs.label("candidate not judged (leading-zero suffix)");
                    return Ok(());
                }
            };
            obs.label(if want.is_some() { "candidate selects a variant" } else { "candidate selects nothing" });
            let sib = has_siblings(info);
            obs.label_if(sib, "enum with suffix siblings");
            obs.nontrivial_if(sib || want.is_some(), case);
            let got = (info.from_mnemonic)(c);
            ensure!(got == want, "from-mnemonic", "{}::from_mnemonic({cand:?}) = {got:?}, the mnemonic table {:?} designates {want:?}", info.name, names(info));
            let got = (info.try_from)(Token::CharacterProgramData(c));
            match (want, got) {
                (Some(w), Ok(g)) => ensure!(w == g, "try-from", "{}::try_from({cand:?}) = variant {g}, expected {w}", info.name),
                (None, Err(err)) => ensure!(err.get_code() == -224, "try-from-error-code", "{}::try_from({cand:?}) = Err({}), an unmatched character datum is an illegal parameter value (-224)", info.name, err.get_code()),
                (w, g) => fail!("try-from", "{}::try_from({cand:?}) = {:?}, expected {w:?}", info.name, g.map_err(|x| x.get_code())),
            }
            Ok(())
        }
        Case::Other { e, kind, text } => {
            let info = &CORPUS[*e % CORPUS.len()];
            obs.label("non-character element");
            let t = text.as_bytes();
            let tok = match kind {
                0 => Token::DecimalNumericProgramData(t),
                1 => Token::StringProgramData(t),
                2 => Token::ArbitraryBlockData(t),
                3 => Token::ExpressionProgramData(t),
                4 => Token::NonDecimalNumericProgramData(t.len() as u64),
                _ => Token::DecimalNumericSuffixProgramData(b"1", t),
            };
            match (info.try_from)(tok) {
                Ok(v) => fail!("type-accepted", "{}::try_from({tok:?}) = variant {v}", info.name),
                Err(err) => ensure!(err.get_code() == -104, "type-error-code", "{}::try_from({tok:?}) = Err({}), a non-character element is a data type error (-104)", info.name, err.get_code()),
            }
            Ok(())
        }
        Case::RoundTrip { e, v } => {
            let info = &CORPUS[*e % CORPUS.len()];
            let v = *v % info.mnemonics.len();
            let def = info.mnemonics[v];
            let (alpha, suffix) = mnemonic::split_suffix(def);
            obs.label("round trip");
            obs.label_if(!suffix.is_empty(), "round trip of a suffixed variant");
            obs.nontrivial(case);
            ensure!((info.mnemonic)(v) == def, "mnemonic", "{} variant {v} reports mnemonic {:?}, defined {:?}", info.name, String::from_utf8_lossy((info.mnemonic)(v)), String::from_utf8_lossy(def));
            let lower_empty = mnemonic::short_of(alpha).len() == alpha.len();
            let mut want_short = mnemonic::short_of(alpha).to_vec();
            if lower_empty {
                want_short.extend_from_slice(suffix);
            }
            ensure!((info.short_form)(v) == &want_short[..], "short-form", "{} variant {v} ({:?}) short_form() = {:?}", info.name, String::from_utf8_lossy(def), String::from_utf8_lossy((info.short_form)(v)));
            let out = match (info.format)(v) {
                Ok(o) => o,
                Err(err) => fail!("format-error", "{} variant {v} fails to format: {}", info.name, err.get_code()),
            };
            ensure!(is_character_data(&out), "response-syntax", "{} variant {v} ({:?}) formatted as {:?}", info.name, String::from_utf8_lossy(def), String::from_utf8_lossy(&out));
            match expected(info, &out) {
                Ok(Some(w)) if w == v => {}
                other => fail!("response-selects", "{} variant {v} ({:?}) formatted as {:?}, which designates {other:?}", info.name, String::from_utf8_lossy(def), String::from_utf8_lossy(&out)),
            }
            match lex_single(&out) {
                Some(t @ Token::CharacterProgramData(_)) => {
                    let back = (info.try_from)(t);
                    ensure!(back == Ok(v), "round-trip", "{} variant {v} -> {:?} -> {:?}", info.name, String::from_utf8_lossy(&out), back.map_err(|x| x.get_code()));
                }
                other => fail!("round-trip", "{} variant {v} -> {:?} lexes as {other:?}", info.name, String::from_utf8_lossy(&out)),
            }
            Ok(())
        }
    }
}

fn names(info: &EnumInfo) -> Vec<String> {
    info.mnemonics.iter().map(|m| String::from_utf8_lossy(m).into_owned()).collect()
}

fn derived_candidate(n_enums: usize) -> impl Strategy<Value = Case> {
    (0usize..n_enums, any::<u16>(), 0u8..8, 0usize..13, "[A-Za-z0-9_]", 0u8..9, 0u8..4, any::<u16>()).prop_map(|(e, vi, alpha_var, k, extra, suffix_var, casemode, mask)| {
        let info = &CORPUS[e];
        let def = info.mnemonics[(vi as usize * info.mnemonics.len()) >> 16];
        let (da, ds) = mnemonic::split_suffix(def);
        let short = mnemonic::short_of(da);
        let mut alpha: Vec<u8> = match alpha_var {
            0 | 1 => short.to_vec(),
            2 | 3 => da.to_vec(),
            4 => da[..(k * (da.len() + 1) / 13).min(da.len())].to_vec(),
            5 => {
                let mut v = short.to_vec();
                v.push(extra.as_bytes()[0]);
                v
            }
            6 => {
                let mut v = da.to_vec();
                v.push(extra.as_bytes()[0]);
                v
            }
            _ => {
                // the alphabetic part of a sibling variant
                let other = info.mnemonics[(mask as usize * info.mnemonics.len()) >> 16];
                mnemonic::split_suffix(other).0.to_vec()
            }
        };
        match casemode {
            0 => {}
            1 => alpha.make_ascii_lowercase(),
            2 => alpha.make_ascii_uppercase(),
            _ => {
                for (i, c) in alpha.iter_mut().enumerate() {
                    if mask >> (i % 16) & 1 == 1 {
                        *c = if c.is_ascii_lowercase() { c.to_ascii_uppercase() } else { c.to_ascii_lowercase() };
                    }
                }
            }
        }
        let dn: u64 = std::str::from_utf8(ds).ok().and_then(|s| s.parse().ok()).unwrap_or(1);
        let suffix = match suffix_var {
            0 | 1 => String::new(),
            2 => "1".to_string(),
            3 => "01".to_string(),
            4 => "2".to_string(),
            5 | 6 => String::from_utf8_lossy(ds).into_owned(),
            7 => (dn + 1).to_string(),
            _ => dn.saturating_sub(1).to_string(),
        };
        alpha.truncate(12usize.saturating_sub(suffix.len()));
        Case::Candidate { e, cand: format!("{}{}", String::from_utf8_lossy(&alpha), suffix) }
    })
}

fn case_strategy(n_enums: usize) -> impl Strategy<Value = Case> {
    prop_oneof![
        14 => derived_candidate(n_enums),
        3 => (0usize..n_enums, "[A-Za-z][A-Za-z0-9_]{0,11}").prop_map(|(e, cand)| Case::Candidate { e, cand }),
        1 => (0usize..n_enums, 0u8..6, "[A-Za-z0-9]{0,8}").prop_map(|(e, kind, text)| Case::Other { e, kind, text }),
        2 => (0usize..n_enums, 0usize..9).prop_map(|(e, v)| Case::RoundTrip { e, v }),
    ]
}

fn run(e: &Engine) {
    let n_enums = e.tier.pick(120, CORPUS.len());
    e.note(format!("enum corpus seed {ENUM_SEED}, {} enums compiled, {n_enums} used, {} variants in use", CORPUS.len(), CORPUS[..n_enums].iter().map(|i| i.mnemonics.len()).sum::<usize>()));
    // every variant of every enum in use: mnemonic, short form, round trip
    e.enumerate::<Case, _, _>(
        "every-variant-round-trip",
        n_enums as u64,
        |part, f| {
            let info = &CORPUS[part as usize];
            for v in 0..info.mnemonics.len() {
                if !f(Case::RoundTrip { e: part as usize, v }) {
                    return;
                }
            }
        },
        check,
    );
    // the Rust identifiers of the variants (V0, V1, ...) are not mnemonics: as data they select nothing
    // unless the enum's own table says so
    e.enumerate::<Case, _, _>(
        "variant-identifiers-as-data",
        n_enums as u64,
        |part, f| {
            let info = &CORPUS[part as usize];
            for v in 0..info.mnemonics.len().max(3) + 2 {
                for cand in [format!("V{v}"), format!("v{v}"), format!("V{v}1"), "V".to_string(), "v".to_string()] {
                    if !f(Case::Candidate { e: part as usize, cand }) {
                        return;
                    }
                }
            }
        },
        check,
    );
    // every variant's own forms select that variant (exhaustive over the table)
    e.enumerate::<Case, _, _>(
        "own-forms-select-own-variant",
        n_enums as u64,
        |part, f| {
            let info = &CORPUS[part as usize];
            for m in info.mnemonics {
                let (alpha, suffix) = mnemonic::split_suffix(m);
                for a in [mnemonic::short_of(alpha), alpha] {
                    for lower in [false, true] {
                        let mut c = a.to_vec();
                        if lower {
                            c.make_ascii_lowercase();
                        }
                        c.extend_from_slice(suffix);
                        if !f(Case::Candidate { e: part as usize, cand: String::from_utf8(c).unwrap() }) {
                            return;
                        }
                    }
                }
            }
        },
        check,
    );
    e.proptest("derived-and-random-candidates", e.tier.pick(600_000, 40_000_000), move || case_strategy(n_enums), check);
    e.require_fraction("enum with suffix siblings", "candidate selects a variant", 0.05);
    e.require_fraction("candidate selects a variant", "candidate selects nothing", 0.2);
}
