//! C16 — status byte and IEEE 488.2 common commands follow the 488.2 status model.
use crate::engine::{CheckResult, Engine, Obs, PropertyMeta};
use crate::props::status_common::*;

pub fn meta() -> PropertyMeta {
    PropertyMeta {
        id: "C16",
        level: "exploration",
        rule: "histories of 1..30 messages over the full minimal device: *ESE / *SRE with 0..255 (every single bit, random masks; 256, -1, 1000 as rejects) and their queries, *ESR?, *STB?, *CLS, *OPC, *OPC?, *TST? (self-test scripted to pass or fail with a chosen code), *RST, *WAI, *IDN?, failing messages of every class, status-subsystem writes, device-side condition changes, and the message-available flag chosen per message. Oracle: 488.2 status model (bit 2 queue non-empty, bits 3/7 QUES/OPER summary as the crate documents it, bit 4 MAV, bit 5 ESR&ESE, bit 6 any of those enabled in SRE); responses of *STB? *ESE? *SRE? *ESR? *OPC? *TST? and the registers compared after every message. Plus histories that queue 250..520 items with *STB? after each item around the 256 and 512 marks. Added: EVERY *ESE value x *SRE values (12 in the quick tier, all 256 in the thorough tier) x every subset of the settable ESR bits with *STB? before and after *ESR?; queues of 65540 .. 131080 items with *STB? at the 2^16 / 2^17 marks. Stored messages executed from inside a handler (nested Node::run on the same device and context) appear in one step in six. Non-trivial: a history in which at least 3 of the five status-byte inputs are non-zero at some *STB?, with the MAV flag both ways across the run.",
        assumptions: &["the QUES/OPER summary bit follows the crate's documented definition (condition & enable), since the property does not define it"],
        run,
    }
}

pub fn check(h: &History, obs: &Obs) -> CheckResult {
    let scope = Scope { cls_agnostic: false, queue_and_esr: false, registers: false, status_byte: true };
    let stbs = h.steps.iter().flat_map(|s| s.units.iter()).filter(|(u, _)| matches!(u, U::StbQ)).count();
    obs.label("history");
    obs.label_if(stbs > 0, "history with *STB?");
    let before = (stbs, h.steps.len());
    let r = run_history(h, scope, obs);
    // run_history labels the rich *STB? cases; count the history as non-trivial when it has *STB? and MAV both ways
    let mav_both = h.steps.iter().any(|s| s.mav) && h.steps.iter().any(|s| !s.mav);
    obs.nontrivial_if(before.0 > 0 && mav_both, h);
    r
}

/// A plain 488.2 instrument using the provided `IEEE4882::stb()`: (esr, ese, sre, mav).
#[derive(Clone, Copy, Debug, serde::Serialize, serde::Deserialize, Hash)]
pub struct Plain {
    pub esr: u8,
    pub ese: u8,
    pub sre: u8,
    pub mav: bool,
}

pub fn check_plain(c: &Plain, obs: &Obs) -> CheckResult {
    use crate::dev488::{PlainDev, PLAIN_TREE};
    use crate::ensure;
    let mut dev = PlainDev { esr: c.esr, ese: 0, sre: 0 };
    let mut ctx = scpi::Context::default();
    ctx.mav = c.mav;
    let mut resp: Vec<u8> = Vec::new();
    let msg = format!("*ESE {};*SRE {};*STB?;*ESE?;*SRE?", c.ese, c.sre);
    let r = PLAIN_TREE.run(msg.as_bytes(), &mut dev, &mut ctx, &mut resp);
    ensure!(r.is_ok(), "plain-device", "{msg:?} fails with {:?}", r.map_err(|e| e.get_code()));
    let esb = c.esr & c.ese != 0;
    let low = ((esb as u8) << 5) | ((c.mav as u8) << 4);
    let mss = low & c.sre != 0;
    let want = format!("{};{};{}\n", low | ((mss as u8) << 6), c.ese, c.sre);
    obs.label("plain 488.2 device (provided stb())");
    obs.nontrivial_if(esb || c.mav, c);
    ensure!(resp == want.as_bytes(), "plain-device-stb", "ESR={:#04x} MAV={}: {msg:?} answers {:?}, the 488.2 status model says {want:?}", c.esr, c.mav, String::from_utf8_lossy(&resp));
    Ok(())
}

/// A device that overrides the provided `ScpiDevice::push_error` (the -800 class is none of its error hook's
/// business) and implements `opc()` with the documented helper `scpi_opc()`: `*OPC` sets the operation-complete
/// bit all the same, and bits 5 / 6 of the status byte follow from it. (ese, sre)
fn check_own_push_error(c: &(u8, u8, bool), obs: &Obs) -> CheckResult {
    use crate::dev488::{MinDev, MIN_TREE, MIN_TREE_ALT};
    use crate::ensure;
    let (ese, sre, alt) = *c;
    let tree = if alt { &MIN_TREE_ALT } else { &MIN_TREE };
    let mut dev = MinDev::new(false);
    dev.own_push_error = true;
    let mut ctx = scpi::Context::default();
    let mut resp: Vec<u8> = Vec::new();
    let msg = format!("*ESE {ese};*SRE {sre};*OPC;*STB?;*ESR?;*ESR?");
    let r = tree.run(msg.as_bytes(), &mut dev, &mut ctx, &mut resp);
    ensure!(r.is_ok(), "own-push-error", "{msg:?} fails with {:?}", r.map_err(|e| e.get_code()));
    let text = String::from_utf8_lossy(&resp).into_owned();
    let parts: Vec<u8> = text.trim_end().split(';').filter_map(|p| p.parse().ok()).collect();
    ensure!(parts.len() == 3, "own-push-error", "{msg:?} answers {text:?}");
    let esb = ese & 1 != 0;
    // bit 2 (queue) depends on whether this device queues the -800 event: not judged
    let want_low = (esb as u8) << 5;
    let mss = (want_low & sre != 0) || (parts[0] & 0x04 & sre != 0);
    obs.label("device with its own push_error");
    obs.nontrivial_if(esb, c);
    ensure!(parts[1] & 1 == 1 && parts[2] == 0, "opc-bit", "device with its own push_error: {msg:?} answers {text:?}: *ESR? after *OPC must show bit 0 and then read 0");
    ensure!(parts[0] & 0xB3 == want_low && (parts[0] & 0x40 != 0) == mss, "own-push-error-stb", "device with its own push_error: {msg:?} answers {text:?}: *STB? must show ESB = {esb} and MSS = {mss}");
    Ok(())
}

fn run(e: &Engine) {
    let cases: Vec<(u8, u8, bool)> = [0u8, 1, 2, 0x21, 0xFE, 0xFF].iter().flat_map(|ese| [0u8, 0x20, 0x04, 0x24, 0x40, 0xFF].iter().flat_map(move |sre| [(*ese, *sre, false), (*ese, *sre, true)])).collect();
    e.fixed("device-with-its-own-push-error", cases, check_own_push_error);
    // a plain 488.2 device that keeps the trait's provided stb(): EVERY *ESE x EVERY *SRE x ESR patterns x MAV
    e.enumerate::<Plain, _, _>(
        "plain-488-device-every-ese-sre",
        256,
        |ese, f| {
            for sre in 0..=255u8 {
                for esr in [0u8, 0x01, 0x20, 0x3D, 0x80, 0xFF] {
                    for mav in [false, true] {
                        if !f(Plain { esr, ese: ese as u8, sre, mav }) {
                            return;
                        }
                    }
                }
            }
        },
        check_plain,
    );
    e.proptest("common-command-histories", e.tier.pick(60_000, 3_000_000), || history([10, 3, 1, 2, 2], 30, 1), check);
    e.require_fraction("*STB? with >= 3 non-zero inputs", "history", 0.2);
    e.require_fraction("MAV both ways", "history", 0.5);
    // bounded-exhaustive: EVERY *ESE value x *SRE values (every value in the thorough tier) x every
    // subset of the settable ESR bits (OPC, QYE, DDE, EXE, CME), *STB? before and after *ESR?
    let sres: Vec<i32> = if e.tier == crate::engine::Tier::Thorough && !cfg!(debug_assertions) { (0..256).collect() } else { vec![0, 1, 2, 4, 8, 16, 32, 64, 128, 255, 0x24, 0x60] };
    let sres_ref = &sres;
    e.enumerate::<History, _, _>(
        "every-ese-sre-esr-combination",
        256,
        move |ese, f| {
            use crate::rec::ErrSpec;
            for &sre in sres_ref.iter() {
                for pattern in 0u8..32 {
                    let one = |u: U| Step { events: vec![], mav: false, tst: None, units: vec![(u, 0)], stored: None };
                    let mut steps = Vec::new();
                    if pattern & 1 != 0 {
                        steps.push(one(U::Opc));
                    }
                    for (bit, code) in [(2u8, -400i16), (4, -300), (8, -200), (16, -100)] {
                        if pattern & bit != 0 {
                            steps.push(one(U::Fail(ErrSpec { code, custom: false, extended: false })));
                        }
                    }
                    steps.push(Step { events: vec![], mav: false, tst: None, units: vec![(U::Ese(ese as i32), 0), (U::Sre(sre), 0)], stored: None });
                    steps.push(Step { events: vec![], mav: (sre as u8 ^ pattern) & 1 == 1, tst: None, units: vec![(U::StbQ, 0)], stored: None });
                    steps.push(one(U::EsrQ));
                    steps.push(one(U::StbQ));
                    if !f(History { bounded: pattern & 2 != 0, steps }) {
                        return;
                    }
                }
            }
        },
        check,
    );
    // long queues: *STB? bit 2 with 250..520 unread items
    e.proptest("long-queue-histories", e.tier.pick(160, 4_000), long_queue_history, check);
    // queues beyond 16-bit counts: 65540 .. 131080 unread items, counts and status byte at the 2^16 (2^17) marks
    if !cfg!(debug_assertions) {
        e.fixed("queue-beyond-65535-items", huge_cases(e.tier == crate::engine::Tier::Thorough), |h: &Huge, obs: &Obs| check(&huge_queue(h), obs));
    }
}
