//! C17 — numeric_value parameters resolve MIN/MAX/DEF and never leave [min,max].
use crate::engine::{CheckResult, Engine, Obs, PropertyMeta};
use crate::gen::lit::{render, style_strategy};
use crate::model::mnemonic::keyword_matches;
use crate::{ensure, fail};
use proptest::prelude::*;
use scpi::error::Error;
use scpi::parser::tokenizer::Token;
use scpi::units::uom::si::f32::{Frequency, Time};
use scpi::units::uom::si::frequency::hertz;
use scpi::units::uom::si::time::second;
use scpi_contrib::scpi1999::{NumericValue, NumericValueDefaults};
use serde::{Deserialize, Serialize};
use std::fmt::Debug;

pub fn meta() -> PropertyMeta {
    PropertyMeta {
        id: "C17",
        level: "exploration",
        rule: "underlying types u8, i32, i64, f32, f64, Frequency<f32>, Time<f32>; tokens: the five keywords in short/long form x case and near misses (one character shorter/longer, MINI, DEFA, UPP, DOW), decimal literals on / just inside / just outside the bounds, INF/NINF/NAN for floats, suffixed values, non-numeric elements; configurations (min <= max incl. min = max, bounds at the type extremes and +-inf, default inside or absent, no bounds at all) through both builder paths. Oracle: executable specification of the property text. Added: every order of the builder's setters and the NumericBuilder::new constructor, the parsed value passed through NumericValue::map or an arithmetic operator before it is resolved; EVERY letter string up to 4 (5) characters as a character datum for five underlying types. Non-trivial: value within one step of a bound, keyword near miss, NaN/inf, or min = max.",
        assumptions: &[
            "min <= max and default (if any) inside [min,max] are preconditions of the configuration",
            "the underlying conversion (T::try_from) is judged by C07/C08/C18; here the value path is compared with it",
        ],
        run,
    }
}

#[derive(Clone, Copy, Debug, Serialize, Deserialize, Hash, PartialEq, Eq)]
pub enum Ty {
    U8,
    I32,
    I64,
    F32,
    F64,
    Freq,
    Time,
}

#[derive(Clone, Debug, Serialize, Deserialize, Hash)]
pub enum Tok {
    Chr(String),
    Dec(String),
    DecSuffix(String, String),
    NonDec(u64),
    Str(String),
    Block(Vec<u8>),
    Expr(String),
    /// character data built by device code: any bytes
    ChrBytes(Vec<u8>),
}

#[derive(Clone, Debug, Serialize, Deserialize, Hash)]
pub struct Case {
    pub ty: Ty,
    pub tok: Tok,
    /// bounds as f64 bit patterns (converted into the type with `as`), min <= max
    pub min: u64,
    pub max: u64,
    pub default: Option<u64>,
    /// 0 = build().min().max()[.default()].finish(), 1 = finish_with(max, min), 2 = build().finish() (type bounds),
    /// 3 = build()[.default()].max().min(), 4 = build().max()[.default()].min(), 5 = NumericBuilder::new(v, max, min)[.default()], 6 = every setter called twice (last call counts)
    pub path: u8,
}

#[derive(Clone, Copy, PartialEq, Debug)]
enum Kw {
    Max,
    Min,
    Def,
    Up,
    Down,
}

fn keyword(s: &[u8]) -> Option<Kw> {
    for (def, k) in [(&b"MAXimum"[..], Kw::Max), (b"MINimum", Kw::Min), (b"DEFault", Kw::Def), (b"UP", Kw::Up), (b"DOWN", Kw::Down)] {
        if keyword_matches(def, s) {
            return Some(k);
        }
    }
    None
}

fn token<'a>(t: &'a Tok) -> Token<'a> {
    match t {
        Tok::Chr(s) => Token::CharacterProgramData(s.as_bytes()),
        Tok::ChrBytes(b) => Token::CharacterProgramData(b),
        Tok::Dec(s) => Token::DecimalNumericProgramData(s.as_bytes()),
        Tok::DecSuffix(s, x) => Token::DecimalNumericSuffixProgramData(s.as_bytes(), x.as_bytes()),
        Tok::NonDec(v) => Token::NonDecimalNumericProgramData(*v),
        Tok::Str(s) => Token::StringProgramData(s.as_bytes()),
        Tok::Block(b) => Token::ArbitraryBlockData(b),
        Tok::Expr(s) => Token::ExpressionProgramData(s.as_bytes()),
    }
}

fn check_t<T>(case: &Case, min: T, max: T, default: Option<T>, tmin: T, tmax: T, step_near: impl Fn(T, T, T) -> bool, special: impl Fn(T) -> bool, obs: &Obs) -> CheckResult
where
    T: Copy + PartialOrd + Debug + NumericValueDefaults + for<'a> TryFrom<Token<'a>, Error = Error>,
{
    let tok = token(&case.tok);
    let parsed: Result<NumericValue<T>, Error> = NumericValue::<T>::try_from(tok);
    // ---- parse oracle
    let kw = match &case.tok {
        Tok::Chr(s) => keyword(s.as_bytes()),
        Tok::ChrBytes(b) => keyword(b),
        _ => None,
    };
    let near_miss = matches!(&case.tok, Tok::Chr(_) | Tok::ChrBytes(_)) && kw.is_none();
    obs.label_if(kw.is_some(), "keyword");
    obs.label_if(near_miss, "character datum that is not a keyword");
    let under = T::try_from(tok);
    let expect_value: Option<T> = match (&kw, &parsed) {
        (Some(k), Ok(nv)) => {
            let ok = matches!((k, nv), (Kw::Max, NumericValue::Maximum) | (Kw::Min, NumericValue::Minimum) | (Kw::Def, NumericValue::Default) | (Kw::Up, NumericValue::Up) | (Kw::Down, NumericValue::Down));
            ensure!(ok, "keyword-variant", "{:?} parsed as {nv:?}, keyword is {k:?}", case.tok);
            None
        }
        (Some(k), Err(e)) => fail!("keyword-rejected", "{:?} (keyword {k:?}) rejected with {}", case.tok, e.get_code()),
        (None, Ok(NumericValue::Value(v))) => match under {
            Ok(u) => {
                // NaN != NaN: compare through PartialOrd-free debug text
                ensure!(format!("{v:?}") == format!("{u:?}"), "value-differs", "{:?} parsed as Value({v:?}), the underlying type gives {u:?}", case.tok);
                Some(*v)
            }
            Err(e) => fail!("value-fabricated", "{:?} parsed as Value({v:?}) although the underlying type rejects it with {}", case.tok, e.get_code()),
        },
        (None, Ok(nv)) => fail!("keyword-accepted", "{:?} parsed as {nv:?} although it is not a keyword", case.tok),
        (None, Err(e)) => {
            match under {
                Err(u) => ensure!(u.get_code() == e.get_code(), "error-differs", "{:?}: numeric_value error {} vs underlying {}", case.tok, e.get_code(), u.get_code()),
                Ok(u) => fail!("value-rejected", "{:?} rejected with {} although the underlying type accepts it as {u:?}", case.tok, e.get_code()),
            }
            obs.label("rejected by the underlying type");
            return Ok(());
        }
    };
    let nv = parsed.unwrap();
    // the accessor says the same as the variant
    match (&nv, nv.value()) {
        (NumericValue::Value(v), Some(a)) => ensure!(format!("{v:?}") == format!("{a:?}"), "value-accessor", "{:?}: value() = {a:?}, variant holds {v:?}", case.tok),
        (NumericValue::Value(v), None) => fail!("value-accessor", "{:?}: value() = None for Value({v:?})", case.tok),
        (other, Some(a)) => fail!("value-accessor", "{:?}: value() = Some({a:?}) for {other:?}", case.tok),
        (_, None) => {}
    }
    // ---- resolve oracle
    let (lo, hi, def) = match case.path {
        2 => (tmin, tmax, None),
        1 => (min, max, None),
        _ => (min, max, default),
    };
    let got = match case.path {
        2 => nv.build().finish(),
        1 => nv.finish_with(max, min),
        // the same configuration through every order of the setters / constructors
        3 => match default {
            Some(d) => nv.build().default(d).max(max).min(min).finish(),
            None => nv.build().max(max).min(min).finish(),
        },
        4 => match default {
            Some(d) => nv.build().max(max).default(d).min(min).finish(),
            None => nv.build().max(max).min(min).finish(),
        },
        // every setter called twice: what was configured last is what counts
        6 => match default {
            Some(d) => nv.build().default(tmin).max(tmin).min(tmax).default(tmax).min(min).max(max).default(d).finish(),
            None => nv.build().max(tmin).min(tmax).max(max).min(min).finish(),
        },
        5 => {
            let b = scpi_contrib::scpi1999::NumericBuilder::new(nv, max, min);
            match default {
                Some(d) => b.default(d).finish(),
                None => b.finish(),
            }
        }
        // the parsed value handed through `map` (a handler that converts or scales the number before
        // resolving it): the special forms must come out of it as they went in
        7 | 8 => {
            let nv = if case.path == 7 { nv.map(|x| x) } else { nv.map(|x| (x, 0u8)).map(|t| t.0) };
            let b = nv.build().min(min).max(max);
            match default {
                Some(d) => b.default(d).finish(),
                None => b.finish(),
            }
        }
        _ => {
            let b = nv.build().min(min).max(max);
            match default {
                Some(d) => b.default(d).finish(),
                None => b.finish(),
            }
        }
    };
    obs.label_if(case.path >= 3 && default.is_some(), "setter order varied with a default configured");
    let want: Result<T, i16> = match (kw, expect_value) {
        (Some(Kw::Max), _) => Ok(hi),
        (Some(Kw::Min), _) => Ok(lo),
        (Some(Kw::Def), _) => def.ok_or(-224),
        (Some(Kw::Up), _) | (Some(Kw::Down), _) => Err(-224),
        (None, Some(v)) => {
            if lo <= v && v <= hi {
                Ok(v)
            } else {
                Err(-222)
            }
        }
        (None, None) => unreachable!(),
    };
    let eq_bounds = format!("{lo:?}") == format!("{hi:?}");
    let near = expect_value.map_or(false, |v| step_near(v, lo, hi));
    let spec = expect_value.map_or(false, |v| special(v));
    obs.label_if(eq_bounds, "min = max");
    obs.label_if(near, "value within one step of a bound");
    obs.label_if(spec, "NaN / infinity");
    obs.nontrivial_if(eq_bounds || near || near_miss || spec, case);
    match (&want, &got) {
        (Ok(w), Ok(g)) => {
            ensure!(format!("{w:?}") == format!("{g:?}"), "resolve-value", "{:?} with [{lo:?}, {hi:?}] default {def:?} resolved to {g:?}, specification says {w:?}", case.tok);
            ensure!(lo <= *g && *g <= hi, "resolve-out-of-bounds", "{:?} resolved to {g:?} outside [{lo:?}, {hi:?}]", case.tok);
        }
        (Err(c), Err(e)) => ensure!(*c == e.get_code(), "resolve-error-code", "{:?} with [{lo:?}, {hi:?}] failed with {}, specification says {c}", case.tok, e.get_code()),
        (Ok(w), Err(e)) => fail!("resolve-rejected", "{:?} with [{lo:?}, {hi:?}] default {def:?} failed with {}, specification says Ok({w:?})", case.tok, e.get_code()),
        (Err(c), Ok(g)) => fail!("resolve-accepted", "{:?} with [{lo:?}, {hi:?}] default {def:?} resolved to {g:?}, specification says error {c}", case.tok),
    }
    Ok(())
}

pub fn check(case: &Case, obs: &Obs) -> CheckResult {
    let (a, b) = (f64::from_bits(case.min), f64::from_bits(case.max));
    if !(a <= b) {
        fail!("harness-config", "min > max in generated configuration");
    }
    let d = case.default.map(f64::from_bits);
    if let Some(d) = d {
        if !(a <= d && d <= b) {
            fail!("harness-config", "default outside bounds in generated configuration");
        }
    }
    macro_rules! int {
        ($t:ty) => {
            check_t::<$t>(case, a as $t, b as $t, d.map(|x| x as $t), <$t>::MIN, <$t>::MAX,
                |v, lo, hi| (v as i128 - lo as i128).abs() <= 1 || (v as i128 - hi as i128).abs() <= 1, |_| false, obs)
        };
    }
    macro_rules! flt {
        ($t:ty) => {
            check_t::<$t>(case, a as $t, b as $t, d.map(|x| x as $t), <$t>::MIN, <$t>::MAX,
                |v, lo, hi| { let near = |x: $t, y: $t| x == y || (x - y).abs() <= (y.abs() * 1e-6 as $t).max(<$t>::MIN_POSITIVE); near(v, lo) || near(v, hi) },
                |v| v.is_nan() || v.is_infinite(), obs)
        };
    }
    match case.ty {
        Ty::U8 => int!(u8),
        Ty::I32 => int!(i32),
        Ty::I64 => int!(i64),
        Ty::F32 => flt!(f32),
        Ty::F64 => flt!(f64),
        Ty::Freq => check_t::<Frequency>(
            case,
            Frequency::new::<hertz>(a as f32),
            Frequency::new::<hertz>(b as f32),
            d.map(|x| Frequency::new::<hertz>(x as f32)),
            Frequency::new::<hertz>(f32::MIN),
            Frequency::new::<hertz>(f32::MAX),
            |v, lo, hi| {
                let near = |x: f32, y: f32| x == y || (x - y).abs() <= y.abs() * 1e-6;
                near(v.value, lo.value) || near(v.value, hi.value)
            },
            |v| !v.value.is_finite(),
            obs,
        ),
        Ty::Time => check_t::<Time>(
            case,
            Time::new::<second>(a as f32),
            Time::new::<second>(b as f32),
            d.map(|x| Time::new::<second>(x as f32)),
            Time::new::<second>(f32::MIN),
            Time::new::<second>(f32::MAX),
            |v, lo, hi| {
                let near = |x: f32, y: f32| x == y || (x - y).abs() <= y.abs() * 1e-6;
                near(v.value, lo.value) || near(v.value, hi.value)
            },
            |v| !v.value.is_finite(),
            obs,
        ),
    }
}

// ---------------------------------------------------------------- generators

fn kw_word() -> impl Strategy<Value = String> {
    let words = [
        "MAXimum", "MINimum", "DEFault", "UP", "DOWN", "MAX", "MIN", "DEF", "MAXI", "MINI", "DEFA", "DEFAUL", "DEFAULTS", "UPP", "U", "DOW", "DOWNN", "DO", "MA", "MAXIMU", "MINIMUMM", "INF", "NINF", "NAN",
        "INFinity", "ON", "OFF", "ONCE", "UP1", "DOWN1", "MAX1", "DEF1",
    ];
    prop_oneof![
        6 => (0usize..words.len(), 0u8..4, any::<u16>()).prop_map(move |(i, c, mask)| {
            let w = words[i].to_string();
            match c {
                0 => w,
                1 => w.to_ascii_lowercase(),
                2 => w.to_ascii_uppercase(),
                _ => w.bytes().enumerate().map(|(k, b)| if mask >> (k % 16) & 1 == 1 { (b as char).to_ascii_lowercase() } else { (b as char).to_ascii_uppercase() }).collect(),
            }
        }),
        1 => "[A-Za-z][A-Za-z0-9_]{0,7}",
    ]
}

fn bounds(ty: Ty) -> BoxedStrategy<(f64, f64, Option<f64>)> {
    let (tmin, tmax): (f64, f64) = match ty {
        Ty::U8 => (0.0, 255.0),
        Ty::I32 => (i32::MIN as f64, i32::MAX as f64),
        Ty::I64 => (i64::MIN as f64, i64::MAX as f64),
        Ty::F32 | Ty::Freq | Ty::Time => (f32::MIN as f64, f32::MAX as f64),
        Ty::F64 => (f64::MIN, f64::MAX),
    };
    let is_int = matches!(ty, Ty::U8 | Ty::I32 | Ty::I64);
    let point = move || -> BoxedStrategy<f64> {
        let small: BoxedStrategy<f64> = if is_int {
            (-300i32..300).prop_map(|v| v as f64).boxed()
        } else {
            prop_oneof![(-3000i32..3000).prop_map(|v| v as f64 / 8.0), (-300i32..300, -20i32..20).prop_map(|(m, e)| m as f64 * 10f64.powi(e))].boxed()
        };
        let mut v: Vec<(u32, BoxedStrategy<f64>)> = vec![(6, small), (1, Just(tmin).boxed()), (1, Just(tmax).boxed()), (1, Just(0.0).boxed())];
        if !is_int {
            v.push((1, Just(f64::INFINITY).boxed()));
            v.push((1, Just(f64::NEG_INFINITY).boxed()));
        }
        proptest::strategy::Union::new_weighted(v).boxed()
    };
    (point(), point(), 0u8..4, 0.0f64..=1.0)
        .prop_map(move |(a, b, mode, t)| {
            let (mut lo, mut hi) = if a <= b { (a, b) } else { (b, a) };
            lo = lo.clamp(tmin.min(f64::NEG_INFINITY), f64::INFINITY);
            if is_int {
                lo = lo.clamp(tmin, tmax);
                hi = hi.clamp(tmin, tmax);
            }
            if mode == 3 {
                hi = lo; // min = max
            }
            let def = match mode {
                0 => None,
                _ => {
                    let d = if lo.is_finite() && hi.is_finite() { lo + (hi - lo) * t } else if lo.is_finite() { lo } else if hi.is_finite() { hi } else { 0.0 };
                    let d = if is_int { d.round() } else { d };
                    Some(d.clamp(lo, hi))
                }
            };
            (lo, hi, def)
        })
        .boxed()
}

fn value_literal(lo: f64, hi: f64, is_int: bool) -> BoxedStrategy<String> {
    let around = move |x: f64| -> Vec<f64> {
        if is_int {
            vec![x, x - 1.0, x + 1.0, x - 0.4, x + 0.4, x + 0.6, x - 0.6]
        } else {
            let d = (x.abs() * 1e-7).max(1e-30);
            vec![x, x - d, x + d, x * (1.0 + 1e-3), x * (1.0 - 1e-3)]
        }
    };
    let mut cands: Vec<f64> = Vec::new();
    for b in [lo, hi] {
        if b.is_finite() {
            cands.extend(around(b));
        }
    }
    if lo.is_finite() && hi.is_finite() {
        cands.push(lo + (hi - lo) / 2.0);
    }
    cands.push(0.0);
    cands.retain(|c| c.is_finite());
    let n = cands.len();
    prop_oneof![
        5 => (0usize..n, style_strategy(8)).prop_map(move |(i, st)| {
            let x = cands[i];
            // exact decimal rendering of the f64 through its shortest repr
            let s = format!("{:e}", x.abs());
            let (m, e) = s.split_once('e').unwrap();
            let e: i32 = e.parse().unwrap();
            let (ip, fp) = m.split_once('.').unwrap_or((m, ""));
            let digits = format!("{ip}{fp}");
            let scale = fp.len() as i32 - e;
            if scale >= 0 {
                render(x < 0.0, &digits, scale as u32, &st)
            } else {
                render(x < 0.0, &format!("{digits}{}", "0".repeat((-scale) as usize)), 0, &st)
            }
        }),
        1 => crate::gen::lit::wide_literal(),
    ]
    .boxed()
}

fn case_strategy() -> impl Strategy<Value = Case> {
    let tys = [Ty::U8, Ty::I32, Ty::I64, Ty::F32, Ty::F64, Ty::Freq, Ty::Time];
    (0usize..tys.len())
        .prop_flat_map(move |i| {
            let ty = tys[i];
            (Just(ty), bounds(ty))
        })
        .prop_flat_map(|(ty, (lo, hi, def))| {
            let is_int = matches!(ty, Ty::U8 | Ty::I32 | Ty::I64);
            let suffixes: &'static [&'static str] = match ty {
                Ty::Freq => &["HZ", "KHZ", "MHZ", "GHZ", "khz", "S", "V"],
                Ty::Time => &["S", "MS", "US", "NS", "MIN", "HR", "ms", "HZ", "X"],
                _ => &["V", "S", "HZ"],
            };
            let tok = prop_oneof![
                8 => kw_word().prop_map(Tok::Chr),
                10 => value_literal(lo, hi, is_int).prop_map(Tok::Dec),
                3 => (value_literal(lo, hi, is_int), 0usize..suffixes.len()).prop_map(move |(l, s)| Tok::DecSuffix(l, suffixes[s].to_string())),
                1 => any::<u64>().prop_map(Tok::NonDec),
                1 => (0u64..300).prop_map(Tok::NonDec),
                1 => "[a-z]{0,5}".prop_map(Tok::Str),
                // an element of another kind that merely spells a keyword is not a keyword
                1 => kw_word().prop_map(Tok::Str),
                1 => kw_word().prop_map(|w| Tok::Block(w.into_bytes())),
                1 => kw_word().prop_map(Tok::Expr),
                1 => proptest::collection::vec(any::<u8>(), 0..5).prop_map(Tok::Block),
                1 => "[0-9,:]{0,5}".prop_map(Tok::Expr),
            ];
            (Just(ty), tok, Just((lo, hi, def)), prop_oneof![4 => Just(0u8), 2 => Just(1u8), 1 => Just(2u8), 1 => Just(3u8), 1 => Just(4u8), 1 => Just(5u8), 1 => Just(6u8), 1 => Just(7u8), 1 => Just(8u8)])
        })
        .prop_map(|(ty, tok, (lo, hi, def), path)| Case { ty, tok, min: lo.to_bits(), max: hi.to_bits(), default: def.map(f64::to_bits), path })
}

/// The arithmetic operators of `NumericValue` (a handler scaling volts to millivolts before it
/// resolves the parameter): (variant 0..6, operator 0..4, integer type?). The special forms pass
/// through unchanged - so that UP / DOWN still end as an illegal-parameter error and MIN / MAX /
/// DEF still resolve - and a number is operated on.
fn check_operator(c: &(u8, u8, bool), obs: &Obs) -> CheckResult {
    fn variant<T: Copy>(k: u8, v: T) -> NumericValue<T> {
        match k {
            0 => NumericValue::Maximum,
            1 => NumericValue::Minimum,
            2 => NumericValue::Default,
            3 => NumericValue::Up,
            4 => NumericValue::Down,
            _ => NumericValue::Value(v),
        }
    }
    let (k, op, int) = *c;
    let name = ["+", "-", "*", "/"][op as usize % 4];
    // resolved with min 0, max 1000, default 7: what the handler would see in the end
    let (got, want): (String, String) = if int {
        let nv = variant(k, 12i32);
        let r = match op % 4 { 0 => nv + 4, 1 => nv - 4, 2 => nv * 4, _ => nv / 4 };
        let w = variant(k, match op % 4 { 0 => 16, 1 => 8, 2 => 48, _ => 3 });
        (format!("{:?} -> {:?}", r, r.build().min(0).max(1000).default(7).finish().map_err(|e| e.get_code())), format!("{:?} -> {:?}", w, w.build().min(0).max(1000).default(7).finish().map_err(|e| e.get_code())))
    } else {
        let nv = variant(k, 12.0f64);
        let r = match op % 4 { 0 => nv + 4.0, 1 => nv - 4.0, 2 => nv * 4.0, _ => nv / 4.0 };
        let w = variant(k, match op % 4 { 0 => 16.0, 1 => 8.0, 2 => 48.0, _ => 3.0 });
        (format!("{:?} -> {:?}", r, r.build().min(0.0).max(1000.0).default(7.0).finish().map_err(|e| e.get_code())), format!("{:?} -> {:?}", w, w.build().min(0.0).max(1000.0).default(7.0).finish().map_err(|e| e.get_code())))
    };
    obs.label("operator on a numeric_value");
    obs.nontrivial_if(k < 5, c);
    ensure!(got == want, "operator-changes-form", "NumericValue variant {k} {name} 4 ({}): {got}; expected {want}", if int { "i32" } else { "f64" });
    Ok(())
}

const ALL_TY: [Ty; 7] = [Ty::U8, Ty::I32, Ty::I64, Ty::F32, Ty::F64, Ty::Freq, Ty::Time];

/// Every form of every keyword with every byte value 0..=255 substituted at, and inserted before, every
/// position (a token built by device code can carry any bytes; only ASCII letters in either case spell a keyword).
fn keyword_byte_sweep() -> Vec<Case> {
    let mut v = Vec::new();
    let forms: [&[u8]; 10] = [b"MAX", b"MAXIMUM", b"MIN", b"MINIMUM", b"DEF", b"DEFAULT", b"UP", b"DOWN", b"maximum", b"def"];
    for (fi, form) in forms.iter().enumerate() {
        for pos in 0..=form.len() {
            for b in 0u16..256 {
                for insert in [false, true] {
                    if !insert && pos == form.len() {
                        continue;
                    }
                    let mut t = form.to_vec();
                    if insert { t.insert(pos, b as u8) } else { t[pos] = b as u8 }
                    let ty = ALL_TY[(fi + pos + b as usize) % ALL_TY.len()];
                    v.push(Case { ty, tok: Tok::ChrBytes(t), min: 2f64.to_bits(), max: 100f64.to_bits(), default: Some(7f64.to_bits()), path: ((pos + b as usize) % 9) as u8 });
                }
            }
        }
    }
    v
}

fn run(e: &Engine) {
    e.fixed("every-keyword-every-byte-substituted", keyword_byte_sweep(), check);
    let ops: Vec<(u8, u8, bool)> = (0..6u8).flat_map(|k| (0..4u8).flat_map(move |op| [(k, op, false), (k, op, true)])).collect();
    e.fixed("operators-keep-special-forms", ops, check_operator);
    // bounded-exhaustive: EVERY letter string up to a length as a character datum of a numeric_value
    // (keywords in their short forms resolve; every other string is what the underlying type makes of it)
    const LETTERS: &[u8] = b"ABCDEFGHIJKLMNOPQRSTUVWXYZ";
    let kw = crate::gen::enumstr::Partitioned { alpha: LETTERS, max_len: if cfg!(debug_assertions) { e.tier.pick(3usize, 4) } else { e.tier.pick(4usize, 5) }, prefix_len: 2 };
    let kwr = &kw;
    const TYS: [Ty; 5] = [Ty::U8, Ty::I64, Ty::F32, Ty::F64, Ty::Freq];
    e.enumerate::<Case, _, _>(
        "every-letter-string-as-keyword",
        kw.parts() * TYS.len() as u64,
        move |p, f| {
            let ty = TYS[(p / kwr.parts()) as usize];
            kwr.run(p % kwr.parts(), &mut |s| s.is_empty() || f(Case { ty, tok: Tok::Chr(String::from_utf8_lossy(s).into_owned()), min: 2f64.to_bits(), max: 100f64.to_bits(), default: Some(7f64.to_bits()), path: ((s.len() + s[0] as usize) % 9) as u8 }))
        },
        check,
    );
    // keyword chimeras (head of one keyword, tail of another, ...) for every type and builder path
    let chim = crate::model::mnemonic::keyword_chimeras();
    let chimr = &chim;
    e.enumerate::<Case, _, _>(
        "keyword-chimeras",
        ALL_TY.len() as u64,
        move |p, f| {
            for (i, w) in chimr.iter().enumerate() {
                for tok in [Tok::Chr(w.clone()), Tok::Str(w.clone()), Tok::Block(w.clone().into_bytes()), Tok::Expr(w.clone())] {
                    if !f(Case { ty: ALL_TY[p as usize], tok, min: 2f64.to_bits(), max: 100f64.to_bits(), default: Some(7f64.to_bits()), path: (i % 9) as u8 }) {
                        return;
                    }
                }
            }
        },
        check,
    );
    e.proptest("numeric-value", e.tier.pick(1_000_000, 20_000_000), case_strategy, check);
    e.require_fraction("keyword", "keyword", 1.0);
    if !e.replay_only && !e.failed() {
        for l in ["min = max", "value within one step of a bound", "character datum that is not a keyword", "NaN / infinity"] {
            if e.label_count(l) < 1000 {
                e.harness_error(format!("generator unhealthy: only {} cases labelled {l:?}", e.label_count(l)));
            }
        }
    }
}
