//! C18 — unit suffixes scale by their SCPI multiplier; unknown suffixes are rejected.
use crate::engine::{CheckResult, Engine, Obs, PropertyMeta};
use crate::gen::lit::{render, style_strategy};
use crate::{ensure, fail};
use proptest::prelude::*;
use scpi::error::Error;
use scpi::parser::suffix::{Amplitude, Db};
use scpi::parser::tokenizer::Token;
use scpi::units::uom;
use serde::{Deserialize, Serialize};

pub fn meta() -> PropertyMeta {
    PropertyMeta {
        id: "C18",
        level: "exploration",
        rule: "all 14 quantity types with f32 and f64 storage x every suffix the crate defines (random letter case) x decimal literals of magnitude 1e-12..1e12 (and zero) in NRf spellings; no suffix; undefined candidates: suffixes of other quantities, one-character edits of defined ones, random strings up to 12 characters over the suffix alphabet; non-numeric elements; Amplitude<Q> with PK/PP/RMS appended; Db<V,Q> with the DB* suffixes. Oracle: hand-written (quantity, suffix) -> (factor, offset) table from SCPI-99 vol.1 7.x; expected = literal x factor + offset, compared within 16 ulp of the storage type at the largest intermediate magnitude. Added: EVERY letter string up to 6 characters as the suffix of every quantity (4.5 G cases), up to 7 for volt and hertz in the thorough tier. Keyword and number text (MAX, INF, NAN, DEF, ON, 1e3 ...) as character / string / block / expression data for every quantity, Db, Amplitude and the non-SI quantities: never accepted. Non-trivial: suffix with a multiplier other than 1, mixed-case spelling, or an undefined near miss.",
        assumptions: &[
            "ANN is uom's 365-day year; a bare temperature is degrees Celsius (the crate's declared base; SCPI leaves it device dependent)",
            "EV = 1.602176634e-19 J (2019 SI)",
            "tolerance 16 ulp of the storage float at the largest intermediate magnitude (uom converts through its own base unit)",
        ],
        run,
    }
}

macro_rules! quantities {
    ($( $Q:ident, $m:ident, $base:ident; )*) => {
        #[derive(Clone, Copy, Debug, Serialize, Deserialize, Hash, PartialEq, Eq)]
        pub enum Q { $($Q),* }
        pub const ALL_Q: &[Q] = &[$(Q::$Q),*];

        fn conv(q: Q, single: bool, tok: Token) -> Result<f64, Error> {
            match q {
                $(Q::$Q => if single {
                    uom::si::f32::$Q::try_from(tok).map(|v| v.get::<uom::si::$m::$base>() as f64)
                } else {
                    uom::si::f64::$Q::try_from(tok).map(|v| v.get::<uom::si::$m::$base>())
                }),*
            }
        }

        fn conv_amp(q: Q, single: bool, tok: Token) -> Result<(u8, f64), Error> {
            fn split<T>(a: Amplitude<T>) -> (u8, T) {
                match a {
                    Amplitude::None(x) => (0, x),
                    Amplitude::Peak(x) => (1, x),
                    Amplitude::PeakToPeak(x) => (2, x),
                    Amplitude::Rms(x) => (3, x),
                }
            }
            match q {
                $(Q::$Q => if single {
                    Amplitude::<uom::si::f32::$Q>::try_from(tok).map(|a| { let (k, v) = split(a); (k, v.get::<uom::si::$m::$base>() as f64) })
                } else {
                    Amplitude::<uom::si::f64::$Q>::try_from(tok).map(|a| { let (k, v) = split(a); (k, v.get::<uom::si::$m::$base>()) })
                }),*
            }
        }
    };
}

quantities! {
    Angle, angle, radian;
    Capacitance, capacitance, farad;
    ElectricCharge, electric_charge, coulomb;
    ElectricCurrent, electric_current, ampere;
    ElectricPotential, electric_potential, volt;
    ElectricalConductance, electrical_conductance, siemens;
    ElectricalResistance, electrical_resistance, ohm;
    Energy, energy, joule;
    Inductance, inductance, henry;
    Power, power, watt;
    Ratio, ratio, ratio;
    ThermodynamicTemperature, thermodynamic_temperature, degree_celsius;
    Time, time, second;
    Frequency, frequency, hertz;
}

/// The same quantities over a NON-SI system of base units (millimetre, gram): the
/// crate's conversions are generic over uom's unit system, a device author may use any.
mod mm_g {
    use scpi::units::uom::si;
    // (what `uom::ISQ!(uom::si, f64, (millimeter, gram, second, ampere, kelvin, mole, candela))` expands to)
    pub type Units = dyn si::Units<
        f64,
        length = si::length::millimeter,
        mass = si::mass::gram,
        time = si::time::second,
        electric_current = si::electric_current::ampere,
        thermodynamic_temperature = si::thermodynamic_temperature::kelvin,
        amount_of_substance = si::amount_of_substance::mole,
        luminous_intensity = si::luminous_intensity::candela,
    >;
    pub type ElectricPotential = si::electric_potential::ElectricPotential<Units, f64>;
    pub type ElectricalResistance = si::electrical_resistance::ElectricalResistance<Units, f64>;
    pub type Power = si::power::Power<Units, f64>;
    pub type Energy = si::energy::Energy<Units, f64>;
    pub type Capacitance = si::capacitance::Capacitance<Units, f64>;
    pub type Time = si::time::Time<Units, f64>;
    pub type Frequency = si::frequency::Frequency<Units, f64>;
}

/// value in the quantity's SI base unit when read into the millimetre-gram system (None: not covered)
fn conv_mm_g(q: Q, tok: Token) -> Option<Result<f64, Error>> {
    use scpi::units::uom::si;
    Some(match q {
        Q::ElectricPotential => mm_g::ElectricPotential::try_from(tok).map(|v| v.get::<si::electric_potential::volt>()),
        Q::Power => mm_g::Power::try_from(tok).map(|v| v.get::<si::power::watt>()),
        Q::Energy => mm_g::Energy::try_from(tok).map(|v| v.get::<si::energy::joule>()),
        Q::ElectricalResistance => mm_g::ElectricalResistance::try_from(tok).map(|v| v.get::<si::electrical_resistance::ohm>()),
        Q::Capacitance => mm_g::Capacitance::try_from(tok).map(|v| v.get::<si::capacitance::farad>()),
        Q::Time => mm_g::Time::try_from(tok).map(|v| v.get::<si::time::second>()),
        Q::Frequency => mm_g::Frequency::try_from(tok).map(|v| v.get::<si::frequency::hertz>()),
        _ => return None,
    })
}

const PI: f64 = std::f64::consts::PI;

/// (suffix, factor, offset): value_in_base = literal * factor + offset.
/// Written from SCPI-99 vol. 1 section 7.1.3 (suffix multipliers: K 1e3, M 1e-3,
/// MA 1e6, G 1e9, U 1e-6, N 1e-9, P 1e-12; MHZ and MOHM are mega) and the unit
/// definitions, not from the crate's mapping.
pub fn table(q: Q) -> &'static [(&'static str, f64, f64)] {
    match q {
        Q::Angle => &[("RAD", 1.0, 0.0), ("DEG", PI / 180.0, 0.0), ("MNT", PI / 180.0 / 60.0, 0.0), ("SEC", PI / 180.0 / 3600.0, 0.0), ("REV", 2.0 * PI, 0.0), ("GON", PI / 200.0, 0.0)],
        Q::Capacitance => &[("F", 1.0, 0.0), ("MF", 1e-3, 0.0), ("UF", 1e-6, 0.0), ("NF", 1e-9, 0.0), ("PF", 1e-12, 0.0)],
        Q::ElectricCharge => &[("MAC", 1e6, 0.0), ("KC", 1e3, 0.0), ("C", 1.0, 0.0), ("MC", 1e-3, 0.0), ("UC", 1e-6, 0.0), ("AH", 3600.0, 0.0), ("A.HR", 3600.0, 0.0), ("MAH", 3.6, 0.0), ("MA.HR", 3.6, 0.0)],
        Q::ElectricCurrent => &[("KA", 1e3, 0.0), ("A", 1.0, 0.0), ("MA", 1e-3, 0.0), ("UA", 1e-6, 0.0), ("NA", 1e-9, 0.0)],
        Q::ElectricPotential => &[("KV", 1e3, 0.0), ("V", 1.0, 0.0), ("MV", 1e-3, 0.0), ("UV", 1e-6, 0.0)],
        Q::ElectricalConductance => &[("KSIE", 1e3, 0.0), ("SIE", 1.0, 0.0), ("MSIE", 1e-3, 0.0), ("USIE", 1e-6, 0.0)],
        Q::ElectricalResistance => &[("GOHM", 1e9, 0.0), ("MOHM", 1e6, 0.0), ("KOHM", 1e3, 0.0), ("OHM", 1.0, 0.0), ("UOHM", 1e-6, 0.0)],
        Q::Energy => &[
            ("MAJ", 1e6, 0.0),
            ("KJ", 1e3, 0.0),
            ("J", 1.0, 0.0),
            ("MJ", 1e-3, 0.0),
            ("UJ", 1e-6, 0.0),
            ("MAW.HR", 3.6e9, 0.0),
            ("WH", 3600.0, 0.0),
            ("W.HR", 3600.0, 0.0),
            ("MW.HR", 3.6, 0.0),
            ("EV", 1.602176634e-19, 0.0),
        ],
        Q::Inductance => &[("H", 1.0, 0.0), ("MH", 1e-3, 0.0), ("UH", 1e-6, 0.0), ("NH", 1e-9, 0.0), ("PH", 1e-12, 0.0)],
        Q::Power => &[("MAW", 1e6, 0.0), ("KW", 1e3, 0.0), ("W", 1.0, 0.0), ("MW", 1e-3, 0.0), ("UW", 1e-6, 0.0)],
        Q::Ratio => &[("PCT", 1e-2, 0.0), ("PPM", 1e-6, 0.0)],
        Q::ThermodynamicTemperature => &[("CEL", 1.0, 0.0), ("FAR", 5.0 / 9.0, -32.0 * 5.0 / 9.0), ("K", 1.0, -273.15)],
        Q::Time => &[("S", 1.0, 0.0), ("MS", 1e-3, 0.0), ("US", 1e-6, 0.0), ("NS", 1e-9, 0.0), ("MIN", 60.0, 0.0), ("HR", 3600.0, 0.0), ("D", 86400.0, 0.0), ("ANN", 365.0 * 86400.0, 0.0)],
        Q::Frequency => &[("GHZ", 1e9, 0.0), ("MHZ", 1e6, 0.0), ("MAHZ", 1e6, 0.0), ("KHZ", 1e3, 0.0), ("HZ", 1.0, 0.0)],
    }
}

/// DB suffixes: (suffix, reference value in base units).
fn db_table(q: Q) -> &'static [(&'static str, f64)] {
    match q {
        Q::ElectricCurrent => &[("DBA", 1.0), ("DBMA", 1e-3), ("DBUA", 1e-6)],
        Q::ElectricPotential => &[("DBV", 1.0), ("DBMV", 1e-3), ("DBUV", 1e-6)],
        Q::Power => &[("DBW", 1.0), ("DBMW", 1e-3), ("DBM", 1e-3), ("DBUW", 1e-6)],
        Q::Ratio => &[("DB", 1.0)],
        _ => &[],
    }
}

#[derive(Clone, Debug, Serialize, Deserialize, Hash)]
pub enum Case {
    Plain { q: Q, single: bool, lit: String, suffix: Option<String> },
    Amp { q: Q, single: bool, lit: String, suffix: String, spec: String },
    Decibel { q: Q, single: bool, lit: String, suffix: Option<String> },
    NonNumeric { q: Q, single: bool, kind: u8, text: String },
    /// `1` with a suffix built by device code that contains a byte above 0x7F: never a defined suffix
    HighByteSuffix { q: Q, single: bool, suffix: Vec<u8> },
}

fn lookup(q: Q, suffix: &str) -> Option<(f64, f64)> {
    table(q).iter().find(|(s, _, _)| s.eq_ignore_ascii_case(suffix)).map(|(_, f, o)| (*f, *o))
}

fn ulp(single: bool, mag: f64) -> f64 {
    if single {
        let m = (mag as f32).abs().max(f32::MIN_POSITIVE);
        (f32::from_bits(m.to_bits() + 1) - m) as f64
    } else {
        let m = mag.abs().max(f64::MIN_POSITIVE);
        f64::from_bits(m.to_bits() + 1) - m
    }
}

fn close(single: bool, got: f64, want: f64, mags: &[f64]) -> bool {
    let mag = mags.iter().fold(want.abs(), |a, b| a.max(b.abs()));
    (got - want).abs() <= 16.0 * ulp(single, mag)
}

fn lit_value(single: bool, lit: &str) -> f64 {
    if single {
        lit.parse::<f32>().unwrap() as f64
    } else {
        lit.parse::<f64>().unwrap()
    }
}

fn check_plain(q: Q, single: bool, lit: &str, suffix: &Option<String>, obs: &Obs, key: &Case) -> CheckResult {
    let x = lit_value(single, lit);
    let tok = match suffix {
        Some(s) => Token::DecimalNumericSuffixProgramData(lit.as_bytes(), s.as_bytes()),
        None => Token::DecimalNumericProgramData(lit.as_bytes()),
    };
    let got = conv(q, single, tok);
    // the same element read into a non-SI unit system denotes the same quantity
    if !single {
        if let Some(other) = conv_mm_g(q, tok) {
            obs.label("also read into a millimetre-gram unit system");
            match (&got, &other) {
                (Ok(a), Ok(b)) => ensure!(close(false, *b, *a, &[*a, 1e3 * *a, 1e6 * *a, 1e9 * *a]), "unit-system", "{q:?} from {lit} {}: {b:e} base units in the millimetre-gram system, {a:e} in SI", suffix.as_deref().unwrap_or("(none)")),
                (Err(a), Err(b)) => ensure!(a.get_code() == b.get_code(), "unit-system", "{q:?} from {lit} {}: error {} in SI, {} in the millimetre-gram system", suffix.as_deref().unwrap_or("(none)"), a.get_code(), b.get_code()),
                (a, b) => fail!("unit-system", "{q:?} from {lit} {}: {a:?} in SI, {b:?} in the millimetre-gram system", suffix.as_deref().unwrap_or("(none)")),
            }
        }
    }
    let fo = match suffix {
        None => Some((1.0, 0.0)),
        Some(s) => lookup(q, s),
    };
    match fo {
        Some((factor, offset)) => {
            let mixed = suffix.as_ref().map_or(false, |s| s.bytes().any(|c| c.is_ascii_lowercase()));
            obs.label(if suffix.is_some() { "defined suffix" } else { "no suffix" });
            obs.label_if(factor != 1.0, "suffix with multiplier");
            obs.label_if(mixed, "mixed-case suffix");
            obs.nontrivial_if(factor != 1.0 || offset != 0.0 || mixed, key);
            let want = x * factor + offset;
            let kelvin_mag = if q == Q::ThermodynamicTemperature { want.abs() + 273.15 } else { 0.0 };
            match got {
                Ok(g) => ensure!(
                    close(single, g, want, &[x * factor, offset, kelvin_mag]),
                    "suffix-scale",
                    "{q:?}<{}> from {lit} {} = {g:e} base units, SCPI says {want:e} (factor {factor:e}, offset {offset})",
                    if single { "f32" } else { "f64" },
                    suffix.as_deref().unwrap_or("(none)")
                ),
                Err(e) => fail!("suffix-rejected", "{q:?} from {lit} {} rejected with {}", suffix.as_deref().unwrap_or("(none)"), e.get_code()),
            }
        }
        None => {
            obs.label("undefined suffix");
            obs.nontrivial(key);
            if let Ok(g) = got {
                fail!("suffix-accepted", "{q:?} from {lit} {} = {g:e}; the suffix is not defined for this quantity", suffix.as_deref().unwrap());
            }
        }
    }
    Ok(())
}

fn check_amp(q: Q, single: bool, lit: &str, suffix: &str, spec: &str, obs: &Obs, key: &Case) -> CheckResult {
    let x = lit_value(single, lit);
    let full = format!("{suffix}{spec}");
    let tok = Token::DecimalNumericSuffixProgramData(lit.as_bytes(), full.as_bytes());
    let got = conv_amp(q, single, tok);
    obs.label("amplitude");
    obs.nontrivial(key);
    let kind = if spec.eq_ignore_ascii_case("PK") {
        1
    } else if spec.eq_ignore_ascii_case("PP") {
        2
    } else if spec.eq_ignore_ascii_case("RMS") {
        3
    } else {
        0
    };
    // the unit part is what remains after the specifier
    let unit = if kind == 0 { full.as_str() } else { suffix };
    match lookup(q, unit) {
        Some((factor, offset)) => {
            let want = x * factor + offset;
            let kelvin_mag = if q == Q::ThermodynamicTemperature { want.abs() + 273.15 } else { 0.0 };
            match got {
                Ok((k, g)) => {
                    ensure!(k == kind, "amplitude-class", "{q:?} amplitude from {lit} {full}: classified {k}, expected {kind}");
                    ensure!(close(single, g, want, &[x * factor, offset, kelvin_mag]), "amplitude-value", "{q:?} amplitude from {lit} {full} = {g:e}, expected {want:e}");
                }
                Err(e) => fail!("amplitude-rejected", "{q:?} amplitude from {lit} {full} rejected with {}", e.get_code()),
            }
        }
        None => {
            // undefined unit part; a defined unit that merely ends in PK/PP/RMS letters cannot occur in the table
            if let Ok((k, g)) = got {
                fail!("amplitude-accepted", "{q:?} amplitude from {lit} {full} = ({k}, {g:e}); unit {unit:?} is not defined");
            }
        }
    }
    Ok(())
}

/// `Db<V, Q>` of a token: (class, number, unit in base) - class 0 none, 1 linear, 2 logarithmic;
/// None for quantities without decibel forms.
fn conv_db(q: Q, single: bool, tok: Token) -> Option<Result<(u8, f64, f64), Error>> {
    macro_rules! run_db {
        ($Q:ident, $m:ident, $base:ident) => {
            if single {
                Db::<f32, uom::si::f32::$Q>::try_from(tok).map(|d| match d {
                    Db::None(v) => (0u8, v as f64, 0.0),
                    Db::Linear(u) => (1, 0.0, u.get::<uom::si::$m::$base>() as f64),
                    Db::Logarithmic(v, u) => (2, v as f64, u.get::<uom::si::$m::$base>() as f64),
                })
            } else {
                Db::<f64, uom::si::f64::$Q>::try_from(tok).map(|d| match d {
                    Db::None(v) => (0u8, v, 0.0),
                    Db::Linear(u) => (1, 0.0, u.get::<uom::si::$m::$base>()),
                    Db::Logarithmic(v, u) => (2, v, u.get::<uom::si::$m::$base>()),
                })
            }
        };
    }
    Some(match q {
        Q::ElectricCurrent => run_db!(ElectricCurrent, electric_current, ampere),
        Q::ElectricPotential => run_db!(ElectricPotential, electric_potential, volt),
        Q::Power => run_db!(Power, power, watt),
        Q::Ratio => run_db!(Ratio, ratio, ratio),
        _ => return None,
    })
}

fn check_db(q: Q, single: bool, lit: &str, suffix: &Option<String>, obs: &Obs, key: &Case) -> CheckResult {
    obs.label("decibel");
    obs.nontrivial(key);
    let x = lit_value(single, lit);
    let tok = match suffix {
        Some(s) => Token::DecimalNumericSuffixProgramData(lit.as_bytes(), s.as_bytes()),
        None => Token::DecimalNumericProgramData(lit.as_bytes()),
    };
    let Some(got) = conv_db(q, single, tok) else { return Ok(()) };
    match suffix {
        None => match got {
            Ok((0, v, _)) => ensure!(v == x, "db-value", "Db<{q:?}> from {lit} = None({v:e}), literal is {x:e}"),
            other => fail!("db-class", "Db<{q:?}> from {lit} without suffix = {other:?}"),
        },
        Some(s) => {
            if let Some((_, reference)) = db_table(q).iter().find(|(d, _)| d.eq_ignore_ascii_case(s)) {
                match got {
                    Ok((2, v, u)) => {
                        ensure!(v == x, "db-value", "Db<{q:?}> from {lit} {s}: number {v:e} differs from the literal {x:e}");
                        ensure!(close(single, u, *reference, &[]), "db-reference", "Db<{q:?}> from {lit} {s}: reference {u:e}, expected {reference:e}");
                    }
                    other => fail!("db-class", "Db<{q:?}> from {lit} {s} = {other:?}, expected logarithmic"),
                }
            } else if let Some((factor, offset)) = lookup(q, s) {
                let want = x * factor + offset;
                match got {
                    Ok((1, _, u)) => ensure!(close(single, u, want, &[x * factor, offset]), "db-linear", "Db<{q:?}> from {lit} {s}: linear {u:e}, expected {want:e}"),
                    other => fail!("db-class", "Db<{q:?}> from {lit} {s} = {other:?}, expected linear"),
                }
            } else if let Ok(v) = got {
                fail!("db-accepted", "Db<{q:?}> from {lit} {s} = {v:?}; suffix undefined");
            }
        }
    }
    Ok(())
}

pub fn check(case: &Case, obs: &Obs) -> CheckResult {
    match case {
        Case::Plain { q, single, lit, suffix } => check_plain(*q, *single, lit, suffix, obs, case),
        Case::Amp { q, single, lit, suffix, spec } => check_amp(*q, *single, lit, suffix, spec, obs, case),
        Case::Decibel { q, single, lit, suffix } => check_db(*q, *single, lit, suffix, obs, case),
        Case::HighByteSuffix { q, single, suffix } => {
            obs.label("suffix with a non-ASCII byte");
            obs.nontrivial(case);
            let tok = Token::DecimalNumericSuffixProgramData(b"1", suffix);
            if let Ok(v) = conv(*q, *single, tok) {
                fail!("undefined-accepted", "{q:?} from 1 {:?} = {v:e}; the suffix is not defined", crate::bytes::escape(suffix));
            }
            if let Ok(v) = conv_amp(*q, *single, tok) {
                fail!("undefined-accepted", "Amplitude<{q:?}> from 1 {:?} = {v:?}; the suffix is not defined", crate::bytes::escape(suffix));
            }
            if let Some(Ok(v)) = conv_db(*q, *single, tok) {
                fail!("undefined-accepted", "Db<{q:?}> from 1 {:?} = {v:?}; the suffix is not defined", crate::bytes::escape(suffix));
            }
            Ok(())
        }
        Case::NonNumeric { q, single, kind, text } => {
            obs.label("non-numeric element");
            let t = text.as_bytes();
            let tok = match kind {
                0 => Token::CharacterProgramData(t),
                1 => Token::StringProgramData(t),
                2 => Token::ArbitraryBlockData(t),
                3 => Token::ExpressionProgramData(t),
                _ => Token::NonDecimalNumericProgramData(t.len() as u64),
            };
            if let Ok(v) = conv(*q, *single, tok) {
                fail!("non-numeric-accepted", "{q:?} from {tok:?} = {v:e}");
            }
            if let Ok(v) = conv_amp(*q, *single, tok) {
                fail!("non-numeric-accepted", "Amplitude<{q:?}> from {tok:?} = {v:?}");
            }
            if let Some(Ok(v)) = conv_db(*q, *single, tok) {
                fail!("non-numeric-accepted", "Db<{q:?}> from {tok:?} = {v:?}");
            }
            if let Some(Ok(v)) = conv_mm_g(*q, tok) {
                fail!("non-numeric-accepted", "{q:?} (mm-g unit system) from {tok:?} = {v:e}");
            }
            Ok(())
        }
    }
}

// ---------------------------------------------------------------- generators

fn moderate_literal() -> impl Strategy<Value = String> {
    prop_oneof![
        8 => (any::<bool>(), "[1-9][0-9]{0,8}", 0u32..9, -12i32..=12, style_strategy(0)).prop_map(|(neg, digits, scale, exp, mut st)| {
            // magnitude about digits * 10^(exp - scale), kept within 1e-12 .. 1e12 by clamping the shift
            let mag10 = digits.len() as i32 - scale as i32;
            st.exp_shift = (exp - mag10).clamp(-24, 24);
            render(neg, &digits, scale, &st)
        }),
        1 => Just("0".to_string()),
        1 => Just("-0.0".to_string()),
        1 => Just("1".to_string()),
        1 => Just("1.0".to_string()),
        1 => Just("-273.15".to_string()),
        1 => Just("32".to_string()),
    ]
}

fn recase(s: &str, mode: u8, mask: u16) -> String {
    match mode {
        0 => s.to_string(),
        1 => s.to_ascii_lowercase(),
        _ => s.bytes().enumerate().map(|(k, b)| if mask >> (k % 16) & 1 == 1 { (b as char).to_ascii_lowercase() } else { b as char }).collect(),
    }
}

fn all_suffixes() -> Vec<&'static str> {
    let mut v: Vec<&'static str> = Vec::new();
    for q in ALL_Q {
        for (s, _, _) in table(*q) {
            v.push(s);
        }
        for (s, _) in db_table(*q) {
            v.push(s);
        }
    }
    v
}

fn suffix_for(q: Q) -> BoxedStrategy<Option<String>> {
    let defined: Vec<&'static str> = table(q).iter().map(|(s, _, _)| *s).collect();
    let n = defined.len();
    let d2 = defined.clone();
    let everything = all_suffixes();
    let m = everything.len();
    prop_oneof![
        2 => Just(None),
        10 => (0usize..n, 0u8..3, any::<u16>()).prop_map(move |(i, mode, mask)| Some(recase(defined[i], mode, mask))),
        3 => (0usize..m, 0u8..3, any::<u16>()).prop_map(move |(i, mode, mask)| Some(recase(everything[i], mode, mask))),
        // one-character edits of a defined suffix
        3 => (0usize..n, 0u8..3, 0usize..12, "[A-Z0-9./-]").prop_map(move |(i, edit, pos, c)| {
            let mut s: Vec<u8> = d2[i].as_bytes().to_vec();
            let pos = pos % (s.len() + 1);
            match edit {
                0 => s.insert(pos, c.as_bytes()[0]),
                1 => {
                    if s.len() > 1 {
                        s.remove(pos % s.len());
                    } else {
                        s.push(c.as_bytes()[0]);
                    }
                }
                _ => {
                    let p = pos % s.len();
                    s[p] = c.as_bytes()[0];
                }
            }
            Some(String::from_utf8(s).unwrap())
        }),
        1 => "[A-Za-z][A-Za-z0-9./-]{0,11}".prop_map(Some),
    ]
    .boxed()
}

fn case_strategy() -> impl Strategy<Value = Case> {
    (0usize..ALL_Q.len(), any::<bool>()).prop_flat_map(|(qi, single)| {
        let q = ALL_Q[qi];
        let defined: Vec<&'static str> = table(q).iter().map(|(s, _, _)| *s).collect();
        let n = defined.len();
        let dbs: Vec<&'static str> = db_table(q).iter().map(|(s, _)| *s).collect();
        let has_db = !dbs.is_empty();
        let dbs2 = if has_db { dbs } else { vec!["DB"] };
        let nd = dbs2.len();
        prop_oneof![
            12 => (moderate_literal(), suffix_for(q)).prop_map(move |(lit, suffix)| Case::Plain { q, single, lit, suffix }),
            3 => (moderate_literal(), 0usize..n + 1, prop_oneof![Just("PK"), Just("PP"), Just("RMS"), Just("pk"), Just("Rms"), Just(""), Just("P"), Just("RM")], 0u8..3, any::<u16>())
                // index n = no unit at all in front of the specifier ("1.5 PK"): not a defined suffix
                .prop_filter("needs some suffix", move |(_, i, spec, _, _)| *i < n || !spec.is_empty())
                .prop_map(move |(lit, i, spec, mode, mask)| Case::Amp { q, single, lit, suffix: if i < n { recase(defined[i], mode, mask) } else { String::new() }, spec: spec.to_string() }),
            if has_db { 3 } else { 0 } => (moderate_literal(), prop_oneof![
                1 => Just(None),
                3 => (0usize..nd, 0u8..3, any::<u16>()).prop_map({ let dbs2 = dbs2.clone(); move |(i, mode, mask)| Some(recase(dbs2[i], mode, mask)) }),
                2 => suffix_for(q),
            ]).prop_map(move |(lit, suffix)| Case::Decibel { q, single, lit, suffix }),
            1 => (0u8..5, prop_oneof![2 => "[A-Za-z][A-Za-z0-9]{0,6}", 1 => nonnumeric_word()]).prop_map(move |(kind, text)| Case::NonNumeric { q, single, kind, text }),
        ]
    })
}

/// Words that mean something to other conversions (float keywords, numeric_value keywords, booleans), in
/// short / long form and any case, and number-like text: none of them is a quantity when it arrives as
/// character, string, block or expression data.
const WORDS: &[&str] = &["MAX", "MAXimum", "MIN", "MINimum", "INF", "INFinity", "NINF", "NINFinity", "NAN", "DEF", "DEFault", "UP", "DOWN", "ON", "OFF", "AUTO", "ONCE", "V", "DBM", "W", "HZ", "S", "1", "1e3", "1 V", "0 DBM"];

fn nonnumeric_word() -> impl Strategy<Value = String> {
    (proptest::sample::select(WORDS.to_vec()), 0u8..3).prop_map(|(w, mode)| match mode {
        0 => w.to_string(),
        1 => w.to_ascii_uppercase(),
        _ => w.to_ascii_lowercase(),
    })
}

fn run(e: &Engine) {
    // every such word x every quantity x f32 / f64 x every non-numeric element kind x three letter cases
    let mut words: Vec<Case> = Vec::new();
    for q in ALL_Q {
        for w in WORDS {
            for text in [w.to_string(), w.to_ascii_uppercase(), w.to_ascii_lowercase()] {
                for kind in 0u8..4 {
                    // (character data must be a mnemonic: letters first, no blanks)
                    if kind == 0 && !(text.as_bytes()[0].is_ascii_alphabetic() && text.bytes().all(|c| c.is_ascii_alphanumeric())) {
                        continue;
                    }
                    for single in [false, true] {
                        words.push(Case::NonNumeric { q: *q, single, kind, text: text.clone() });
                    }
                }
            }
        }
    }
    e.fixed("keyword-and-number-text-as-non-numeric-elements", words, check);
    // every (quantity, storage, defined suffix) once with a plain literal, upper and lower case
    let mut fixed = Vec::new();
    for q in ALL_Q {
        for single in [true, false] {
            for (s, _, _) in table(*q) {
                for lit in ["1.0", "-2.5e3", "0"] {
                    fixed.push(Case::Plain { q: *q, single, lit: lit.to_string(), suffix: Some(s.to_string()) });
                    fixed.push(Case::Plain { q: *q, single, lit: lit.to_string(), suffix: Some(s.to_ascii_lowercase()) });
                }
            }
            fixed.push(Case::Plain { q: *q, single, lit: "1.5".into(), suffix: None });
        }
    }
    e.fixed("every-defined-suffix", fixed, check);
    // bounded-exhaustive: EVERY letter string up to a length as the suffix of every quantity (a defined
    // one must scale by the table's factor, any other must be rejected); longer strings for the two
    // quantities with the most multiplier prefixes in the thorough tier
    const LETTERS: &[u8] = b"ABCDEFGHIJKLMNOPQRSTUVWXYZ";
    let all_len = if cfg!(debug_assertions) { e.tier.pick(3usize, 4) } else if crate::engine::ALT_CONFIG { e.tier.pick(5usize, 6) } else { 6 };
    let part = crate::gen::enumstr::Partitioned { alpha: LETTERS, max_len: all_len, prefix_len: 2 };
    let partr = &part;
    e.enumerate::<Case, _, _>(
        "every-letter-string-as-suffix",
        part.parts() * ALL_Q.len() as u64,
        move |p, f| {
            let q = ALL_Q[(p / partr.parts()) as usize];
            partr.run(p % partr.parts(), &mut |s| s.is_empty() || f(Case::Plain { q, single: false, lit: "1".into(), suffix: Some(String::from_utf8_lossy(s).into_owned()) }))
        },
        check,
    );
    if e.tier == crate::engine::Tier::Thorough && !cfg!(debug_assertions) {
        let long_len = 7usize;
        let long = crate::gen::enumstr::Partitioned { alpha: LETTERS, max_len: long_len, prefix_len: 3 };
        let longr = &long;
        let qs = [Q::ElectricPotential, Q::Frequency];
        e.enumerate::<Case, _, _>(
            "every-longer-letter-string-as-suffix-volt-hertz",
            long.parts() * qs.len() as u64,
            move |p, f| {
                let q = qs[(p / longr.parts()) as usize];
                longr.run(p % longr.parts(), &mut |s| s.len() < long_len || f(Case::Plain { q, single: false, lit: "1".into(), suffix: Some(String::from_utf8_lossy(s).into_owned()) }))
            },
            check,
        );
    }
    // every defined suffix (incl. the DB ones) x every one- and two-character tail over letters, digits,
    // '.', '/', '-' x four letter-case patterns: no extension of a defined suffix is a defined suffix
    // unless the table says so
    const TAIL: &[u8] = b"ABCDEFGHIJKLMNOPQRSTUVWXYZ0123456789./-";
    e.enumerate::<Case, _, _>(
        "every-defined-suffix-plus-tail",
        ALL_Q.len() as u64,
        |p, f| {
            let q = ALL_Q[p as usize];
            let mut bases: Vec<&'static str> = table(q).iter().map(|(s, _, _)| *s).collect();
            bases.extend(db_table(q).iter().map(|(s, _)| *s));
            for base in bases {
                for t1 in TAIL.iter().map(|c| Some(*c)) {
                    for t2 in std::iter::once(None).chain(TAIL.iter().map(|c| Some(*c))) {
                        let mut full = base.as_bytes().to_vec();
                        full.push(t1.unwrap());
                        if let Some(c) = t2 {
                            full.push(c);
                        }
                        if full.len() > 12 {
                            continue;
                        }
                        for casing in 0..4u8 {
                            let s: String = full
                                .iter()
                                .enumerate()
                                .map(|(i, c)| match casing {
                                    0 => *c as char,
                                    1 => c.to_ascii_lowercase() as char,
                                    2 => if i < base.len() { c.to_ascii_lowercase() as char } else { *c as char },
                                    _ => if i % 2 == 0 { c.to_ascii_lowercase() as char } else { *c as char },
                                })
                                .collect();
                            if !f(Case::Plain { q, single: casing & 1 == 1, lit: "1".into(), suffix: Some(s) }) {
                                return;
                            }
                        }
                    }
                }
            }
        },
        check,
    );
    // every defined suffix with EVERY 7-bit byte value substituted at, or inserted before, every position
    // (control characters, punctuation, digits, the other letter case): a token built by device code may
    // carry any bytes, and only the table's spellings (in any letter case) are defined
    e.enumerate::<Case, _, _>(
        "every-defined-suffix-every-byte-substituted",
        ALL_Q.len() as u64,
        |p, f| {
            let q = ALL_Q[p as usize];
            let mut bases: Vec<&'static str> = table(q).iter().map(|(s, _, _)| *s).collect();
            bases.extend(db_table(q).iter().map(|(s, _)| *s));
            for base in bases {
                for pos in 0..=base.len() {
                    for b in 0u8..128 {
                        for insert in [false, true] {
                            if !insert && pos == base.len() {
                                continue;
                            }
                            let mut full = base.as_bytes().to_vec();
                            if insert { full.insert(pos, b) } else { full[pos] = b }
                            let lower = (pos + b as usize) % 2 == 1;
                            let s: String = full.iter().enumerate().map(|(i, c)| if lower && i != pos { c.to_ascii_lowercase() as char } else { *c as char }).collect();
                            if !f(Case::Plain { q, single: b & 1 == 1, lit: "1".into(), suffix: Some(s) }) {
                                return;
                            }
                        }
                    }
                }
            }
        },
        check,
    );
    // ... and every byte value above 0x7F likewise (raw bytes: only device code can build such a token)
    e.enumerate::<Case, _, _>(
        "every-defined-suffix-every-high-byte-substituted",
        ALL_Q.len() as u64,
        |p, f| {
            let q = ALL_Q[p as usize];
            let mut bases: Vec<&'static str> = table(q).iter().map(|(s, _, _)| *s).collect();
            bases.extend(db_table(q).iter().map(|(s, _)| *s));
            for base in bases {
                for pos in 0..=base.len() {
                    for b in 128u16..256 {
                        for insert in [false, true] {
                            if !insert && pos == base.len() {
                                continue;
                            }
                            let mut full = base.as_bytes().to_vec();
                            if insert { full.insert(pos, b as u8) } else { full[pos] = b as u8 }
                            if b & 1 == 1 {
                                full.make_ascii_lowercase();
                            }
                            if !f(Case::HighByteSuffix { q, single: b & 2 == 2, suffix: full }) {
                                return;
                            }
                        }
                    }
                }
            }
        },
        check,
    );
    // strings assembled from pieces of defined suffixes: two suffixes glued together (also one with itself),
    // and the first k + last k characters of a suffix around a filler - what a comparison of prefixes,
    // tails or words, instead of the whole string and its length, lets through
    e.enumerate::<Case, _, _>(
        "defined-suffix-pieces",
        ALL_Q.len() as u64,
        |p, f| {
            let q = ALL_Q[p as usize];
            let mut bases: Vec<&'static str> = table(q).iter().map(|(s, _, _)| *s).collect();
            bases.extend(db_table(q).iter().map(|(s, _)| *s));
            let mut cands: Vec<String> = Vec::new();
            for a in &bases {
                for b in &bases {
                    cands.push(format!("{a}{b}"));
                    cands.push(format!("{a}.{b}"));
                    cands.push(format!("{a}/{b}"));
                }
                let n = a.len();
                for k in 1..=n {
                    for fill in ["", "X", "XY", "XYZ", ".", "0", a] {
                        cands.push(format!("{}{fill}{}", &a[..k], &a[n - k..]));
                    }
                }
            }
            for c in cands {
                if c.is_empty() || c.len() > 12 {
                    continue;
                }
                for casing in 0..3u8 {
                    let s: String = c.chars().enumerate().map(|(i, ch)| match casing { 0 => ch, 1 => ch.to_ascii_lowercase(), _ => if i % 2 == 1 { ch.to_ascii_lowercase() } else { ch } }).collect();
                    if !f(Case::Plain { q, single: casing == 1, lit: "1".into(), suffix: Some(s.clone()) }) {
                        return;
                    }
                    if casing == 0 && s.len() <= 9 {
                        if !f(Case::Amp { q, single: false, lit: "1".into(), suffix: s, spec: "PK".into() }) {
                            return;
                        }
                    }
                }
            }
        },
        check,
    );
    e.proptest("suffix-conversions", e.tier.pick(1_000_000, 20_000_000), case_strategy, check);
    e.require_fraction("suffix with multiplier", "defined suffix", 0.4);
    e.require_fraction("mixed-case suffix", "defined suffix", 0.3);
}
