//! C03 — mnemonics match only their short or long form, with the default-1 suffix rule.
use crate::engine::{CheckResult, Engine, Obs, PropertyMeta};
use crate::gen::enumstr::for_all_strings;
use crate::model::mnemonic::{self, Verdict};
use crate::{ensure, fail};
use proptest::prelude::*;
use scpi::parser::tokenizer::Token;
use serde::{Deserialize, Serialize};

pub fn meta() -> PropertyMeta {
    PropertyMeta {
        id: "C03",
        level: "exploration",
        rule: "(a) exhaustive: every definition UPPER{1..3 over A,B} lower{0..2 over a,b} suffix in {none,1,2,10} x every candidate string up to length 5 (quick) / 6 (thorough) over {A,a,B,b,0,1,2,_}; (b) generated definitions up to 12 characters x candidates derived from them (every prefix, one-character extensions, case flips, suffix variants none/1/01/2/defined/defined+-1/0-prefixed) and random strings up to 12 characters. Oracle: independent reference matcher, an iff. Numeric suffixes of up to 11 digits with candidates that change one digit, drop the first or prepend one; (c) candidates whose numeric suffix is congruent to the defined one modulo 2^8, 2^16, 2^32 (as a number, and folded with a leading-one sentinel) at every length up to 11 digits. Non-trivial: the candidate shares at least its first character (ignoring case) with the definition, so the verdict is not decided at byte 0.",
        assumptions: &[
            "definitions have SCPI shape UPPER+ lower* digit* (now and then with digits embedded in the upper-case part, e.g. P6V, CH1A); the trailing digit run is the numeric suffix",
            "a candidate suffix that is numerically equal to the defined one but spelled with leading zeros is not judged (the property does not say whether 01 equals 1)",
        ],
        run,
    }
}

#[derive(Clone, Debug, Serialize, Deserialize, Hash)]
pub struct Pair {
    pub def: String,
    pub cand: String,
}

pub fn check_pair(p: &Pair, obs: &Obs) -> CheckResult {
    let def = p.def.as_bytes();
    let cand = p.cand.as_bytes();
    let verdict = mnemonic::matches(def, cand);
    let shares = !cand.is_empty() && cand[0].eq_ignore_ascii_case(&def[0]);
    obs.nontrivial_if(shares, p);
    let (ds, cs) = (mnemonic::split_suffix(def).1, mnemonic::split_suffix(cand).1);
    obs.label_if(ds.len() >= 4 && cs.len() >= 4, "both suffixes of four or more digits");
    obs.label_if(ds.len() >= 9 || cs.len() >= 9, "a suffix of nine or more digits");
    obs.label_if(def.contains(&b'_'), "definition with an underscore");
    match verdict {
        Verdict::Match => obs.label("positive"),
        Verdict::NoMatch => obs.label(if shares { "negative sharing a prefix" } else { "negative" }),
        Verdict::NoClaim => obs.label("no claim (leading-zero suffix / short form plus boundary underscore)"),
    }
    let want = match verdict {
        Verdict::Match => true,
        Verdict::NoMatch => false,
        Verdict::NoClaim => return Ok(()),
    };
    let got = scpi::parser::mnemonic_match(def, cand);
    ensure!(got == want, "match-verdict", "mnemonic_match({:?}, {:?}) = {got}, SCPI says {want}", p.def, p.cand);
    let got = Token::ProgramMnemonic(cand).match_program_header(def);
    ensure!(got == want, "match-verdict", "ProgramMnemonic({:?}).match_program_header({:?}) = {got}, SCPI says {want}", p.cand, p.def);
    let got = Token::CharacterProgramData(cand).match_program_header(def);
    ensure!(got == want, "match-verdict", "CharacterProgramData({:?}).match_program_header({:?}) = {got}, SCPI says {want}", p.cand, p.def);
    for t in [
        Token::StringProgramData(cand),
        Token::DecimalNumericProgramData(cand),
        Token::ArbitraryBlockData(cand),
        Token::ExpressionProgramData(cand),
        Token::DecimalNumericSuffixProgramData(cand, cand),
    ] {
        if t.match_program_header(def) {
            fail!("match-non-mnemonic", "{t:?}.match_program_header({:?}) is true for a non-mnemonic element", p.def);
        }
    }
    // suffix-free definitions: mnemonic_compare is what the keyword parameters use
    let (alpha, suffix) = mnemonic::split_suffix(def);
    if suffix.is_empty() {
        let want = mnemonic::keyword_matches(alpha, cand);
        let got = scpi::parser::mnemonic_compare(def, cand);
        ensure!(got == want, "compare-verdict", "mnemonic_compare({:?}, {:?}) = {got}, short/long-form rule says {want}", p.def, p.cand);
    }
    Ok(())
}

fn small_defs() -> Vec<String> {
    let mut out = Vec::new();
    fn words(alpha: &[u8], min: usize, max: usize) -> Vec<String> {
        let mut v = vec![String::new()];
        let mut all = Vec::new();
        if min == 0 {
            all.push(String::new());
        }
        for len in 1..=max {
            let mut next = Vec::new();
            for w in &v {
                for a in alpha {
                    let mut s = w.clone();
                    s.push(*a as char);
                    next.push(s);
                }
            }
            if len >= min {
                all.extend(next.iter().cloned());
            }
            v = next;
        }
        all
    }
    for u in words(b"AB", 1, 3) {
        for l in words(b"ab_", 0, 2) {
            for s in ["", "1", "2", "10"] {
                out.push(format!("{u}{l}{s}"));
            }
        }
    }
    out
}

const CAND_ALPHA: &[u8] = b"AaBb012_";

#[derive(Clone, Debug)]
enum AlphaVariant {
    Short,
    Long,
    Prefix(usize),
    ShortPlus(u8),
    LongPlus(u8),
    Random(String),
}

#[derive(Clone, Debug)]
enum SuffixVariant {
    None,
    One,
    ZeroOne,
    Two,
    Defined,
    DefinedPlus,
    DefinedMinus,
    ZeroDefined,
    Random(u16),
    /// the defined suffix with the digit at a relative position replaced
    FlipDigit(u16, u8),
    /// the defined suffix without its first digit / with a further leading digit
    DropFirst,
    Prepend(u8),
}

fn def_strategy() -> impl Strategy<Value = String> {
    (
        prop_oneof![10 => "[A-Z]{1,6}", 2 => "[A-Z][0-9]{1,2}[A-Z]{1,2}", 2 => "[A-Z]{1,2}[0-9][A-Z]", 1 => "[A-Z]{1,3}_[A-Z]{1,2}"],
        // the optional tail: letters, and the underscore 488.2 allows in a mnemonic (at the boundary, inside, at the end)
        prop_oneof![12 => "[a-z]{0,6}", 1 => "_[a-z]{1,4}", 1 => "[a-z]{1,3}_[a-z]{1,2}", 1 => "_{1,2}"],
        prop_oneof![
            3 => Just(None),
            2 => (1u32..4).prop_map(Some),
            2 => (0u32..130).prop_map(Some),
            1 => (0u32..1000).prop_map(Some),
        ]
        .prop_map(|s| s.map(|n| n.to_string()).unwrap_or_default()),
        // long numeric suffixes (serial-number style names): up to 11 digits fit a 12-character mnemonic
        prop_oneof![8 => Just(String::new()), 1 => "[1-9][0-9]{3,10}", 1 => "[1-9]0{3,9}[0-9]"],
    )
        .prop_map(|(u, l, s, long)| {
            let s = if long.is_empty() { s } else { long };
            let mut alpha = format!("{u}{l}");
            alpha.truncate(12 - s.len());
            format!("{alpha}{s}")
        })
}

fn pair_strategy() -> impl Strategy<Value = Pair> {
    let alpha_var = prop_oneof![
        3 => Just(AlphaVariant::Short),
        3 => Just(AlphaVariant::Long),
        3 => (0usize..13).prop_map(AlphaVariant::Prefix),
        1 => "[A-Za-z0-9_]".prop_map(|s| AlphaVariant::ShortPlus(s.as_bytes()[0])),
        1 => "[A-Za-z0-9_]".prop_map(|s| AlphaVariant::LongPlus(s.as_bytes()[0])),
        2 => "[A-Za-z][A-Za-z0-9_]{0,11}".prop_map(AlphaVariant::Random),
    ];
    let suffix_var = prop_oneof![
        3 => Just(SuffixVariant::None),
        2 => Just(SuffixVariant::One),
        1 => Just(SuffixVariant::ZeroOne),
        1 => Just(SuffixVariant::Two),
        3 => Just(SuffixVariant::Defined),
        1 => Just(SuffixVariant::DefinedPlus),
        1 => Just(SuffixVariant::DefinedMinus),
        1 => Just(SuffixVariant::ZeroDefined),
        1 => (0u16..1000).prop_map(SuffixVariant::Random),
        2 => (any::<u16>(), 0u8..10).prop_map(|(p, d)| SuffixVariant::FlipDigit(p, d)),
        1 => Just(SuffixVariant::DropFirst),
        1 => (1u8..10).prop_map(SuffixVariant::Prepend),
    ];
    (def_strategy(), alpha_var, suffix_var, any::<u16>(), 0u8..4).prop_map(|(def, av, sv, mask, casemode)| {
        let (da, ds) = mnemonic::split_suffix(def.as_bytes());
        let short = mnemonic::short_of(da);
        let mut alpha: Vec<u8> = match av {
            AlphaVariant::Short => short.to_vec(),
            AlphaVariant::Long => da.to_vec(),
            AlphaVariant::Prefix(k) => da[..(k * (da.len() + 1) / 13).min(da.len())].to_vec(),
            AlphaVariant::ShortPlus(c) => {
                let mut v = short.to_vec();
                v.push(c);
                v
            }
            AlphaVariant::LongPlus(c) => {
                let mut v = da.to_vec();
                v.push(c);
                v
            }
            AlphaVariant::Random(s) => s.into_bytes(),
        };
        match casemode {
            0 => {}
            1 => alpha.make_ascii_lowercase(),
            2 => alpha.make_ascii_uppercase(),
            _ => {
                for (i, c) in alpha.iter_mut().enumerate() {
                    if mask >> (i % 16) & 1 == 1 {
                        *c = if c.is_ascii_lowercase() { c.to_ascii_uppercase() } else { c.to_ascii_lowercase() };
                    }
                }
            }
        }
        let dn: u64 = std::str::from_utf8(ds).ok().and_then(|s| s.parse().ok()).unwrap_or(1);
        let suffix = match sv {
            SuffixVariant::None => String::new(),
            SuffixVariant::One => "1".into(),
            SuffixVariant::ZeroOne => "01".into(),
            SuffixVariant::Two => "2".into(),
            SuffixVariant::Defined => String::from_utf8_lossy(ds).into_owned(),
            SuffixVariant::DefinedPlus => (dn + 1).to_string(),
            SuffixVariant::DefinedMinus => dn.saturating_sub(1).to_string(),
            SuffixVariant::ZeroDefined => format!("0{}", String::from_utf8_lossy(ds)),
            SuffixVariant::Random(n) => n.to_string(),
            SuffixVariant::FlipDigit(p, d) => {
                let mut v = ds.to_vec();
                if !v.is_empty() {
                    let i = (p as usize * v.len()) >> 16;
                    v[i] = b'0' + d;
                }
                String::from_utf8_lossy(&v).into_owned()
            }
            SuffixVariant::DropFirst => String::from_utf8_lossy(ds.get(1..).unwrap_or(&[])).into_owned(),
            SuffixVariant::Prepend(d) => format!("{d}{}", String::from_utf8_lossy(ds)),
        };
        alpha.truncate(12usize.saturating_sub(suffix.len()));
        let cand = format!("{}{}", String::from_utf8_lossy(&alpha), suffix);
        Pair { def, cand }
    })
}

/// Candidates whose numeric suffix differs from the defined one but is congruent to it modulo
/// 2^8 / 2^16 / 2^32 - as a plain number, and as a number folded with a leading-one sentinel
/// (the usual trick to keep leading zeros significant): what a comparison through a wrapping
/// integer would confuse. The suffix is text ('CH257' is not 'CH1'); the alphabetic part is
/// the defined one in its short and long form.
fn wraparound_aliases() -> Vec<Pair> {
    let defs = ["CH", "CH1", "CH2", "Ab2", "CHANnel7", "X255", "X256", "Q65535", "OUTPut10", "T0", "Ab01", "SERial4294967295", "P99999"];
    let mut v = Vec::new();
    for def in defs {
        let def = &def[..def.len().min(12)];
        let (da, ds) = mnemonic::split_suffix(def.as_bytes());
        let ds: &[u8] = if ds.is_empty() { b"1" } else { ds };
        let Ok(val) = std::str::from_utf8(ds).unwrap().parse::<u128>() else { continue };
        let alphas = [mnemonic::short_of(da).to_vec(), da.to_vec()];
        for sentinel in [0u128, 1] {
            let key = sentinel * 10u128.pow(ds.len() as u32) + val;
            for w in [8u32, 16, 32] {
                let modulus = 1u128 << w;
                for n in 1..=11u32 {
                    // all t of n digits with sentinel * 10^n + t == key (mod 2^w)
                    let base = sentinel * 10u128.pow(n);
                    let lo = base;
                    let hi = base + 10u128.pow(n) - 1;
                    // smallest x >= lo with x == key (mod 2^w)
                    let r = key % modulus;
                    let mut x = lo - lo % modulus + r;
                    if x < lo {
                        x += modulus;
                    }
                    let mut taken = 0;
                    while x <= hi && taken < 48 {
                        let t = format!("{:0width$}", x - base, width = n as usize);
                        if t.as_bytes() != ds {
                            for a in &alphas {
                                if a.len() + t.len() <= 12 {
                                    v.push(Pair { def: def.to_string(), cand: format!("{}{}", String::from_utf8_lossy(a), t) });
                                }
                            }
                        }
                        taken += 1;
                        // spread over the whole range when there are many
                        let count = (hi - x) / modulus;
                        x += modulus * (count / 48).max(1);
                    }
                }
            }
        }
    }
    v
}

fn run(e: &Engine) {
    let defs = small_defs();
    let max_len = e.tier.pick(5, 6);
    let defs_ref = &defs;
    e.enumerate::<Pair, _, _>(
        "exhaustive-small-alphabet",
        defs.len() as u64,
        move |part, f| {
            let def = &defs_ref[part as usize];
            for_all_strings(CAND_ALPHA, max_len, &mut |cand| {
                f(Pair {
                    def: def.clone(),
                    cand: String::from_utf8_lossy(cand).into_owned(),
                })
            });
        },
        check_pair,
    );
    e.fixed("numeric-suffix-wraparound-aliases", wraparound_aliases(), check_pair);
    e.proptest("derived-candidates", e.tier.pick(400_000, 20_000_000), pair_strategy, check_pair);
    for l in ["positive", "negative sharing a prefix"] {
        if !e.replay_only && !e.failed() && e.label_count(l) == 0 {
            e.harness_error(format!("no case labelled {l:?} was generated"));
        }
    }
}
