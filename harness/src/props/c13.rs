//! C13 — every failed message is queued once, flagged in ESR, and read back in order.
use crate::engine::{CheckResult, Engine, Obs, PropertyMeta};
use crate::props::status_common::*;

pub fn meta() -> PropertyMeta {
    PropertyMeta {
        id: "C13",
        level: "exploration",
        rule: "histories of 1..25 messages (1..4 units each) on a device wired as examples/minimal_scpi.rs, with an unbounded and with a 3-entry fixed queue: valid commands and queries, every invalid kind (garbage byte, unterminated string, undefined header, missing / surplus parameter, wrong element type, out-of-range value), a test leaf whose handler returns a chosen standard or custom error of every class (with and without extended text), SYST:ERR[:NEXT]? / :COUNt? / :ALL?, *ESR?, *CLS, *OPC in any position, also in the same message as the failing unit. A status model is stepped unit by unit; after every message the response bytes, the device's queue (code, message, extended text) and ESR are compared. The ESR bit comes from the C14 class table. Plus histories that queue 250..520 items without reading them, with SYST:ERR:COUN? after each item around the 256 and 512 marks. Added: queues of 65540 .. 131080 unread items with COUN? at the 2^16 / 2^17 marks and a partial drain. One step in six also carries a stored message (1..3 units, any kind that fits in a string) executed from inside a handler through Node::run with the device and context the handler was given (TEST:MACRo succeeds regardless, TEST:SMACro fails with -272): the stored message's failure is queued and flagged on its own, then the outer message goes on or fails with its own error. Non-trivial: a history with at least 2 failures of different classes and at least one queue read.",
        assumptions: &["'its error' is the error Node::run returned; its class is checked against the injected fault kind (syntax/header/type -> -1xx, range -> -222, handler error -> exactly the injected error)"],
        run,
    }
}

pub fn check(h: &History, obs: &Obs) -> CheckResult {
    let scope = Scope { cls_agnostic: true, queue_and_esr: true, registers: false, status_byte: false };
    // classification
    let mut classes = std::collections::BTreeSet::new();
    let mut reads = 0;
    for s in &h.steps {
        for (u, _) in &s.units {
            match u {
                U::Bad(b) => {
                    classes.insert(match b {
                        Bad::OutOfRange => 2,
                        _ => 1,
                    });
                }
                U::Fail(e) => {
                    classes.insert(10 + crate::model::esr::class_bit(e.code) as i32);
                }
                U::ErrNext | U::ErrAll | U::ErrCount | U::EsrQ => reads += 1,
                _ => {}
            }
        }
    }
    obs.label(if h.bounded { "bounded queue" } else { "unbounded queue" });
    obs.label_if(classes.len() >= 2 && reads >= 1, "two failure classes and a queue read");
    obs.nontrivial_if(classes.len() >= 2 && reads >= 1, h);
    run_history(h, scope, obs)
}

fn run(e: &Engine) {
    e.proptest("message-histories", e.tier.pick(40_000, 2_000_000), || history([3, 1, 5, 3, 3], 25, 1), check);
    e.require_fraction("two failure classes and a queue read", "unbounded queue", 0.5);
    // long queues: more than 255 unread items, counts and reads around the 256 / 512 marks
    e.proptest("long-queue-histories", e.tier.pick(160, 4_000), long_queue_history, check);
    // queues beyond 16-bit counts: 65540 .. 131080 unread items, counts and status byte at the 2^16 (2^17) marks
    if !cfg!(debug_assertions) {
        e.fixed("queue-beyond-65535-items", huge_cases(e.tier == crate::engine::Tier::Thorough), |h: &Huge, obs: &Obs| check(&huge_queue(h), obs));
    }
}
