//! Byte strings that serialise readably: printable ASCII as is, everything
//! else (and the backslash) as \xNN.
use serde::{Deserialize, Deserializer, Serialize, Serializer};
use std::fmt;

#[derive(Clone, PartialEq, Eq, Hash, Default)]
pub struct B(pub Vec<u8>);

pub fn escape(b: &[u8]) -> String {
    let mut s = String::with_capacity(b.len());
    for &c in b {
        if (0x20..0x7f).contains(&c) && c != b'\\' {
            s.push(c as char);
        } else {
            s.push_str(&format!("\\x{c:02X}"));
        }
    }
    s
}

pub fn unescape(s: &str) -> Vec<u8> {
    let b = s.as_bytes();
    let mut out = Vec::with_capacity(b.len());
    let mut i = 0;
    while i < b.len() {
        if b[i] == b'\\' && i + 3 < b.len() + 0 && b[i + 1] == b'x' {
            if let Ok(v) = u8::from_str_radix(&s[i + 2..i + 4], 16) {
                out.push(v);
                i += 4;
                continue;
            }
        }
        out.push(b[i]);
        i += 1;
    }
    out
}

impl fmt::Debug for B {
    fn fmt(&self, f: &mut fmt::Formatter<'_>) -> fmt::Result {
        write!(f, "b\"{}\"", escape(&self.0))
    }
}

impl Serialize for B {
    fn serialize<S: Serializer>(&self, s: S) -> Result<S::Ok, S::Error> {
        s.serialize_str(&escape(&self.0))
    }
}

impl<'de> Deserialize<'de> for B {
    fn deserialize<D: Deserializer<'de>>(d: D) -> Result<Self, D::Error> {
        let s = String::deserialize(d)?;
        Ok(B(unescape(&s)))
    }
}

impl std::ops::Deref for B {
    type Target = [u8];
    fn deref(&self) -> &[u8] {
        &self.0
    }
}

impl From<Vec<u8>> for B {
    fn from(v: Vec<u8>) -> Self {
        B(v)
    }
}
impl From<&[u8]> for B {
    fn from(v: &[u8]) -> Self {
        B(v.to_vec())
    }
}
impl From<String> for B {
    fn from(v: String) -> Self {
        B(v.into_bytes())
    }
}
impl From<&str> for B {
    fn from(v: &str) -> Self {
        B(v.as_bytes().to_vec())
    }
}

#[cfg(test)]
mod tests {
    use super::*;
    #[test]
    fn roundtrip() {
        let all: Vec<u8> = (0..=255).collect();
        assert_eq!(unescape(&escape(&all)), all);
        assert_eq!(escape(b"a\\x41\n"), "a\\x5Cx41\\x0A");
        assert_eq!(unescape("a\\x5Cx41\\x0A"), b"a\\x41\n");
        let b = B(all.clone());
        let j = serde_json::to_string(&b).unwrap();
        let back: B = serde_json::from_str(&j).unwrap();
        assert_eq!(back.0, all);
    }
}
