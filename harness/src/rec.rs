//! Recorder device and handlers (DESIGN 3.3): every generated leaf is a
//! `Rec { id }`; what it does is scripted per *invocation* by the device's plan.
use crate::bytes::B;
use crate::conv::Target;
use crate::gen::msg::ETok;
use scpi::error::{Error, ErrorCode, Result};
use scpi::parser::expression::channel_list::{self as cl, ChannelList};
use scpi::parser::expression::numeric_list::NumericList;
use scpi::parser::format::{Arbitrary, Character, Expression};
use scpi::tree::prelude::*;
use serde::{Deserialize, Serialize};

#[derive(Clone, Copy, Debug, PartialEq, Eq, Hash, Serialize, Deserialize)]
pub enum PullAs {
    /// keep the raw token
    Raw,
    /// convert through TryFrom<Token>
    To(Target),
    /// Parameters::next_data::<T> / next_optional_data::<T> directly
    DataI32,
    DataF64,
    DataBool,
    DataBytes,
    /// derived enum, numeric_value, unit quantities
    Enum,
    NumericF32,
    NumericU8,
    Volt,
    Seconds,
    AmplitudeVolt,
    DbPower,
    Auto,
    /// lists: iterate to the first error, convert every spec
    IterNumList,
    IterChanList,
    /// try every conversion above on the token (errors are expected and ignored)
    All,
}

#[derive(Clone, Copy, Debug, PartialEq, Eq, Hash, Serialize, Deserialize)]
pub struct Pull {
    pub optional: bool,
    pub as_: PullAs,
}

#[derive(Clone, Debug, PartialEq, Eq, Hash, Serialize, Deserialize)]
pub enum RespDatum {
    I32(i32),
    U8(u8),
    U64(u64),
    Bool(bool),
    Str(B),
    Block(B),
    Chr(B),
    Expr(B),
    /// a block of this many pattern bytes (see `big_block`): lengths at the digit-count
    /// boundaries of the block header without carrying megabytes around in the case
    BigBlock(u32),
    /// this many separate data elements (`i % 251` as u8) in one response unit
    ManyU8(u32),
    /// a block of this many zero bytes (for lengths the block header cannot express)
    ZeroBlock(u32),
    /// 1..=8 character items handed over as ONE piece of response data (a `Vec` when the count
    /// is even, an `ArrayVec` when odd): items separated by ',', however short an item's text is
    ChrList(Vec<B>),
    /// a device-defined composite `ResponseData` type: its parts (simple kinds) written one after the other with
    /// `Formatter::data_separator()` between them, the way the library's own `Error` type is written
    Composite(Vec<RespDatum>),
    /// an `Error` handed over as response data (what `SYSTem:ERRor?` does)
    Err(ErrSpec),
    /// a device-defined `ResponseData` type whose formatting fails with this error (a sensor that cannot be
    /// read while the answer is being written): the unit, and with it the message, fails with exactly that error
    Failing(ErrSpec),
}

/// The device-defined response type behind `RespDatum::Failing`.
pub struct FailingData(pub Error);

impl ResponseData for FailingData {
    fn format_response_data(&self, _f: &mut dyn scpi::parser::response::Formatter) -> Result<()> {
        Err(self.0)
    }
}

/// The device-defined composite response type behind `RespDatum::Composite`.
pub struct CompositeData<'a>(pub &'a [RespDatum]);

impl<'a> ResponseData for CompositeData<'a> {
    fn format_response_data(&self, f: &mut dyn scpi::parser::response::Formatter) -> Result<()> {
        for (i, d) in self.0.iter().filter(|d| d.is_simple()).enumerate() {
            if i > 0 {
                f.data_separator()?;
            }
            match d {
                RespDatum::I32(v) => v.format_response_data(f)?,
                RespDatum::U8(v) => v.format_response_data(f)?,
                RespDatum::U64(v) => v.format_response_data(f)?,
                RespDatum::Bool(v) => v.format_response_data(f)?,
                RespDatum::Str(s) => (&s[..]).format_response_data(f)?,
                RespDatum::Block(s) => Arbitrary(&s[..]).format_response_data(f)?,
                RespDatum::Chr(s) => Character(&s[..]).format_response_data(f)?,
                RespDatum::Expr(s) => Expression(&s[..]).format_response_data(f)?,
                RespDatum::Err(e) => e.build().format_response_data(f)?,
                _ => {}
            }
        }
        Ok(())
    }
}

/// `n` pattern bytes with a static lifetime, built once per distinct `n`.
pub fn big_block(n: u32) -> &'static [u8] {
    static CACHE: std::sync::OnceLock<std::sync::Mutex<std::collections::HashMap<u32, &'static [u8]>>> = std::sync::OnceLock::new();
    let mut m = CACHE.get_or_init(Default::default).lock().unwrap();
    m.entry(n).or_insert_with(|| Box::leak((0..n).map(|i| (i.wrapping_mul(31) >> 3) as u8).collect::<Vec<u8>>().into_boxed_slice()))
}

/// `n` zero bytes with a static lifetime (lazily mapped: cheap as long as nobody reads them).
pub fn zero_block(n: u32) -> &'static [u8] {
    static CACHE: std::sync::OnceLock<std::sync::Mutex<std::collections::HashMap<u32, &'static [u8]>>> = std::sync::OnceLock::new();
    let mut m = CACHE.get_or_init(Default::default).lock().unwrap();
    m.entry(n).or_insert_with(|| Box::leak(vec![0u8; n as usize].into_boxed_slice()))
}

impl RespDatum {
    /// The kinds a composite is made of.
    pub fn is_simple(&self) -> bool {
        !matches!(self, RespDatum::BigBlock(_) | RespDatum::ManyU8(_) | RespDatum::ZeroBlock(_) | RespDatum::ChrList(_) | RespDatum::Composite(_) | RespDatum::Failing(_))
    }
    /// Independent encoding (not through the library).
    pub fn encode(&self, out: &mut Vec<u8>) {
        match self {
            RespDatum::I32(v) => out.extend_from_slice(v.to_string().as_bytes()),
            RespDatum::U8(v) => out.extend_from_slice(v.to_string().as_bytes()),
            RespDatum::U64(v) => out.extend_from_slice(v.to_string().as_bytes()),
            RespDatum::Bool(v) => out.push(if *v { b'1' } else { b'0' }),
            RespDatum::Str(s) => out.extend_from_slice(&crate::model::resp::encode_string(s)),
            RespDatum::Block(s) => out.extend_from_slice(&crate::model::resp::encode_block(s)),
            RespDatum::Chr(s) => out.extend_from_slice(s),
            RespDatum::Expr(s) => {
                out.push(b'(');
                out.extend_from_slice(s);
                out.push(b')');
            }
            RespDatum::BigBlock(n) => out.extend_from_slice(&crate::model::resp::encode_block(big_block(*n))),
            RespDatum::ZeroBlock(n) => out.extend_from_slice(&crate::model::resp::encode_block(zero_block(*n))),
            RespDatum::ChrList(items) => {
                for (i, it) in items.iter().enumerate() {
                    if i > 0 {
                        out.push(b',');
                    }
                    out.extend_from_slice(it);
                }
            }
            RespDatum::Composite(parts) => {
                let mut first = true;
                for d in parts.iter().filter(|d| d.is_simple()) {
                    if !first {
                        out.push(b',');
                    }
                    first = false;
                    d.encode(out);
                }
            }
            RespDatum::Failing(_) => {}
            RespDatum::Err(e) => {
                // <code>,"<description>[;<device-dependent info>]" with quotes doubled (SCPI-99 21.8)
                let err = e.build();
                out.extend_from_slice(err.get_code().to_string().as_bytes());
                out.push(b',');
                let mut text = err.get_message().to_vec();
                if let Some(x) = err.get_extended() {
                    text.push(b';');
                    text.extend_from_slice(x);
                }
                out.extend_from_slice(&crate::model::resp::encode_string(&text));
            }
            RespDatum::ManyU8(n) => {
                for i in 0..*n {
                    if i > 0 {
                        out.push(b',');
                    }
                    out.extend_from_slice(((i % 251) as u8).to_string().as_bytes());
                }
            }
        }
    }
}

/// An injected error: a standard code, or a custom one, optionally extended.
#[derive(Clone, Copy, Debug, PartialEq, Eq, Hash, Serialize, Deserialize)]
pub struct ErrSpec {
    pub code: i16,
    pub custom: bool,
    pub extended: bool,
}

impl ErrSpec {
    pub fn build(&self) -> Error {
        let base = if self.custom {
            Error::custom(self.code, b"injected custom error")
        } else {
            match ErrorCode::get_error(self.code) {
                Some(e) => Error::new(e),
                None => Error::custom(self.code, b"injected custom error"),
            }
        };
        if self.extended {
            // the device-dependent text varies with the code: ordinary, empty, and long texts (with quotes
            // and semicolons) around and beyond the 255 characters SCPI-99 21.8 mentions for an item
            // (compile-time tables: building the error must not allocate, C11 counts allocations in handlers)
            const fn pattern<const N: usize>() -> [u8; N] {
                let mut a = [0u8; N];
                let mut i = 0;
                while i < N {
                    a[i] = match i % 29 {
                        7 => b'"',
                        13 => b';',
                        21 => b',',
                        k => b'a' + (k % 26) as u8,
                    };
                    i += 1;
                }
                a
            }
            static L230: [u8; 230] = pattern::<230>();
            static L300: [u8; 300] = pattern::<300>();
            static L1000: [u8; 1000] = pattern::<1000>();
            let long: [&'static [u8]; 3] = [&L230, &L300, &L1000];
            match self.code.rem_euclid(8) {
                1 => base.extended(b""),
                3 => base.extended(long[0]),
                5 => base.extended(long[1]),
                7 => base.extended(long[2]),
                // short texts with quotes: a long first part and a short rest, a lone quote, quotes at both ends
                2 => base.extended(b"slot \"A\" reports a fault in the supply rail of module 2\";x"),
                4 => base.extended(b"\""),
                6 => base.extended(b"\"quoted\""),
                _ => base.extended(b"injected detail"),
            }
        } else {
            base
        }
    }
}

#[derive(Clone, Debug, Default, PartialEq, Eq, Hash, Serialize, Deserialize)]
pub struct UnitPlan {
    pub pulls: Vec<Pull>,
    /// after the scripted pulls keep pulling optional raw tokens until None / error
    pub greedy: bool,
    /// queries only
    pub headers: Vec<B>,
    pub respond: Vec<RespDatum>,
    pub fail: Option<ErrSpec>,
    /// the handler does not propagate an error of a raw parameter pull: it stops pulling
    /// and carries on (legal: "optional parameter, else default"). A lexical error must
    /// abort the message all the same (C05).
    #[serde(default)]
    pub swallow: bool,
    /// queries only: after this many response data the handler calls `finish()` once for its own
    /// book-keeping and ignores the result (the "errors are sticky, check at the end" idiom); the
    /// value it returns is that of the final `finish()`, which must still report the first failure
    #[serde(default)]
    pub mid_finish: Option<u8>,
}

impl UnitPlan {
    pub fn greedy() -> Self {
        UnitPlan { greedy: true, ..Default::default() }
    }
}

#[derive(Clone, Debug, PartialEq)]
pub enum PullResult {
    Token(ETok),
    Converted(String),
    None,
    Error(i16, Option<Vec<u8>>),
}

#[derive(Clone, Debug, PartialEq)]
pub struct Call {
    pub leaf: usize,
    pub query: bool,
    /// every token the handler obtained (raw copies), in order
    pub offered: Vec<ETok>,
    pub results: Vec<PullResult>,
    /// error the handler returned, if any
    pub returned: Option<Error>,
}

#[derive(Default)]
pub struct LogDev {
    pub calls: Vec<Call>,
    pub errors: Vec<Error>,
    pub plan: Vec<UnitPlan>,
    /// plan used when the scripted list is exhausted
    pub default_plan: UnitPlan,
    /// any conversion that produced the library's own internal-error code
    pub internal_errors: Vec<String>,
    /// list items seen beyond the input length (non-termination witness)
    pub runaway: Vec<String>,
}

impl LogDev {
    pub fn with_plan(plan: Vec<UnitPlan>) -> Self {
        LogDev { plan, ..Default::default() }
    }
}

impl Device for LogDev {
    fn handle_error(&mut self, err: Error) {
        self.errors.push(err);
    }
}

pub fn is_internal_error(e: &Error) -> bool {
    e.get_code() == -300 && e.get_extended().map_or(false, |x| x.starts_with(b"Internal parser error"))
        || e.get_message().starts_with(b"Internal parser error")
}

#[derive(Copy, Clone, PartialEq, Debug, scpi_derive::ScpiEnum)]
pub enum PlanEnum {
    #[scpi(mnemonic = b"BINary")]
    Binary,
    #[scpi(mnemonic = b"ASCii1")]
    Ascii1,
    #[scpi(mnemonic = b"ASCii2")]
    Ascii2,
    #[scpi(mnemonic = b"L125")]
    L125,
}

pub struct Rec {
    pub id: usize,
}

fn drive_lists(dev: &mut LogDev, tok: Token, chan: bool) -> core::result::Result<String, Error> {
    let budget = match tok {
        Token::ExpressionProgramData(s) => s.len() + 2,
        _ => 2,
    };
    if chan {
        let it = ChannelList::try_from(tok)?;
        let mut n = 0;
        for item in it {
            n += 1;
            if n > budget {
                dev.runaway.push(format!("ChannelList yields more than {budget} items for {tok:?}"));
                break;
            }
            match item {
                Ok(cl::Token::ChannelSpec(s)) => drive_spec(dev, s, budget),
                Ok(cl::Token::ChannelRange(a, b)) => {
                    drive_spec(dev, a, budget);
                    drive_spec(dev, b, budget);
                }
                Ok(_) => {}
                Err(_) => break,
            }
        }
        Ok(format!("chanlist:{n}"))
    } else {
        let it = NumericList::try_from(tok)?;
        let mut n = 0;
        for item in it {
            n += 1;
            if n > budget {
                dev.runaway.push(format!("NumericList yields more than {budget} items for {tok:?}"));
                break;
            }
            match item {
                Ok(_) => {}
                Err(e) => {
                    if is_internal_error(&e) {
                        dev.internal_errors.push(format!("NumericList item: {e:?}"));
                    }
                    break;
                }
            }
        }
        Ok(format!("numlist:{n}"))
    }
}

fn drive_spec(dev: &mut LogDev, s: cl::ChannelSpec, budget: usize) {
    let mut n = 0;
    for d in s {
        n += 1;
        if n > budget {
            dev.runaway.push("ChannelSpec iterator does not terminate".into());
            break;
        }
        if d.is_err() {
            break;
        }
    }
    let _: core::result::Result<isize, _> = s.try_into();
    let _: core::result::Result<usize, _> = s.try_into();
    let _: core::result::Result<(isize, isize), _> = s.try_into();
    let _: core::result::Result<(usize, usize), _> = s.try_into();
    let _: core::result::Result<(isize, isize, isize), _> = s.try_into();
    let _: core::result::Result<(usize, usize, usize), _> = s.try_into();
}

fn convert(dev: &mut LogDev, tok: Token, as_: &PullAs) -> core::result::Result<String, Error> {
    use scpi::parser::suffix::{Amplitude, Db};
    use scpi::units::uom::si::f32::{ElectricPotential, Power, Time};
    use scpi_contrib::scpi1999::NumericValue;
    Ok(match as_ {
        PullAs::Raw | PullAs::DataI32 | PullAs::DataF64 | PullAs::DataBool | PullAs::DataBytes => unreachable!(),
        PullAs::To(t) => format!("{:?}", t.convert(tok)?),
        PullAs::Enum => format!("{:?}", PlanEnum::try_from(tok)?),
        PullAs::NumericF32 => format!("{:?}", NumericValue::<f32>::try_from(tok)?),
        PullAs::NumericU8 => format!("{:?}", NumericValue::<u8>::try_from(tok)?),
        PullAs::Volt => format!("{:?}", ElectricPotential::try_from(tok)?.value),
        PullAs::Seconds => format!("{:?}", Time::try_from(tok)?.value),
        PullAs::AmplitudeVolt => match Amplitude::<ElectricPotential>::try_from(tok)? {
            Amplitude::None(v) => format!("none {:?}", v.value),
            Amplitude::Peak(v) => format!("pk {:?}", v.value),
            Amplitude::PeakToPeak(v) => format!("pp {:?}", v.value),
            Amplitude::Rms(v) => format!("rms {:?}", v.value),
        },
        PullAs::DbPower => match Db::<f32, Power>::try_from(tok)? {
            Db::None(v) => format!("none {v:?}"),
            Db::Linear(u) => format!("lin {:?}", u.value),
            Db::Logarithmic(v, u) => format!("log {v:?} {:?}", u.value),
        },
        PullAs::Auto => format!("{:?}", scpi_contrib::scpi1999::util::Auto::try_from(tok)?),
        PullAs::IterNumList => drive_lists(dev, tok, false)?,
        PullAs::IterChanList => drive_lists(dev, tok, true)?,
        PullAs::All => {
            let mut ok = 0;
            for k in all_pull_kinds() {
                if matches!(k, PullAs::Raw | PullAs::DataI32 | PullAs::DataF64 | PullAs::DataBool | PullAs::DataBytes | PullAs::All) {
                    continue;
                }
                match convert(dev, tok, &k) {
                    Ok(_) => ok += 1,
                    Err(e) => note_error(dev, "conversion", &e),
                }
            }
            format!("all:{ok}")
        }
    })
}

fn note_error(dev: &mut LogDev, what: &str, e: &Error) {
    if is_internal_error(e) {
        dev.internal_errors.push(format!("{what}: {e:?}"));
    }
}

impl Rec {
    fn run(&self, dev: &mut LogDev, mut params: Parameters, response: Option<ResponseUnit>, query: bool) -> Result<()> {
        let k = dev.calls.len();
        let plan = dev.plan.get(k).cloned().unwrap_or_else(|| dev.default_plan.clone());
        dev.calls.push(Call { leaf: self.id, query, offered: Vec::new(), results: Vec::new(), returned: None });
        let res = self.run_plan(dev, k, &plan, &mut params, response);
        if let Err(e) = &res {
            dev.calls[k].returned = Some(*e);
        }
        res
    }

    fn run_plan(&self, dev: &mut LogDev, k: usize, plan: &UnitPlan, params: &mut Parameters, response: Option<ResponseUnit>) -> Result<()> {
        let mut swallowed = false;
        for p in &plan.pulls {
            match &p.as_ {
                PullAs::DataI32 | PullAs::DataF64 | PullAs::DataBool | PullAs::DataBytes => {
                    macro_rules! direct {
                        ($t:ty) => {
                            if p.optional {
                                params.next_optional_data::<$t>().map(|o| o.map(|v| format!("{v:?}")))
                            } else {
                                params.next_data::<$t>().map(|v| Some(format!("{v:?}")))
                            }
                        };
                    }
                    let r = match &p.as_ {
                        PullAs::DataI32 => direct!(i32),
                        PullAs::DataF64 => direct!(f64),
                        PullAs::DataBool => direct!(bool),
                        _ => direct!(&[u8]),
                    };
                    match r {
                        Ok(Some(s)) => dev.calls[k].results.push(PullResult::Converted(s)),
                        Ok(None) => dev.calls[k].results.push(PullResult::None),
                        Err(e) => {
                            note_error(dev, "next_data", &e);
                            dev.calls[k].results.push(PullResult::Error(e.get_code(), e.get_extended().map(|x| x.to_vec())));
                            return Err(e);
                        }
                    }
                }
                as_ => {
                    let tok = if p.optional { params.next_optional_token() } else { params.next_token().map(Some) };
                    match tok {
                        Ok(Some(t)) => {
                            dev.calls[k].offered.push(ETok::from(t));
                            if *as_ == PullAs::Raw {
                                dev.calls[k].results.push(PullResult::Token(ETok::from(t)));
                            } else {
                                match convert(dev, t, as_) {
                                    Ok(s) => dev.calls[k].results.push(PullResult::Converted(s)),
                                    Err(e) => {
                                        note_error(dev, "conversion", &e);
                                        dev.calls[k].results.push(PullResult::Error(e.get_code(), e.get_extended().map(|x| x.to_vec())));
                                        return Err(e);
                                    }
                                }
                            }
                        }
                        Ok(None) => dev.calls[k].results.push(PullResult::None),
                        Err(e) => {
                            note_error(dev, "next_token", &e);
                            dev.calls[k].results.push(PullResult::Error(e.get_code(), e.get_extended().map(|x| x.to_vec())));
                            if plan.swallow {
                                swallowed = true;
                                break;
                            }
                            return Err(e);
                        }
                    }
                }
            }
        }
        if plan.greedy && !swallowed {
            loop {
                match params.next_optional_token() {
                    Ok(Some(t)) => {
                        dev.calls[k].offered.push(ETok::from(t));
                        dev.calls[k].results.push(PullResult::Token(ETok::from(t)));
                    }
                    Ok(None) => break,
                    Err(e) => {
                        note_error(dev, "next_optional_token", &e);
                        dev.calls[k].results.push(PullResult::Error(e.get_code(), e.get_extended().map(|x| x.to_vec())));
                        if plan.swallow {
                            break;
                        }
                        return Err(e);
                    }
                }
            }
        }
        if let Some(f) = &plan.fail {
            return Err(f.build());
        }
        if let Some(mut resp) = response {
            for h in &plan.headers {
                resp.header(h);
            }
            for (di, d) in plan.respond.iter().enumerate() {
                if plan.mid_finish == Some(di as u8) {
                    let _ = resp.finish();
                }
                match d {
                    RespDatum::I32(v) => resp.data(*v),
                    RespDatum::U8(v) => resp.data(*v),
                    RespDatum::U64(v) => resp.data(*v),
                    RespDatum::Bool(v) => resp.data(*v),
                    RespDatum::Str(s) => resp.data(&s[..]),
                    RespDatum::Block(s) => resp.data(Arbitrary(&s[..])),
                    RespDatum::Chr(s) => resp.data(Character(&s[..])),
                    RespDatum::Expr(s) => resp.data(Expression(&s[..])),
                    RespDatum::BigBlock(n) => resp.data(Arbitrary(big_block(*n))),
                    RespDatum::ZeroBlock(n) => resp.data(Arbitrary(zero_block(*n))),
                    RespDatum::Composite(parts) => resp.data(CompositeData(&parts[..])),
                    RespDatum::Err(e) => resp.data(e.build()),
                    RespDatum::Failing(e) => resp.data(FailingData(e.build())),
                    RespDatum::ChrList(items) if items.len() % 2 == 0 => resp.data(items.iter().map(|i| Character(&i[..])).collect::<Vec<_>>()),
                    RespDatum::ChrList(items) => resp.data(items.iter().take(8).map(|i| Character(&i[..])).collect::<arrayvec::ArrayVec<_, 8>>()),
                    RespDatum::ManyU8(n) => {
                        for i in 0..*n {
                            resp.data((i % 251) as u8);
                        }
                        &mut resp
                    }
                };
            }
            return resp.finish();
        }
        Ok(())
    }
}

impl Command<LogDev> for Rec {
    /// `meta()` is documented as a help / autocompletion hint, "not actually binding in any way":
    /// whatever it says, both forms of every recorder leaf are implemented and must be dispatched.
    fn meta(&self) -> CommandTypeMeta {
        match self.id % 4 {
            0 => CommandTypeMeta::Both,
            1 => CommandTypeMeta::Unknown,
            2 => CommandTypeMeta::NoQuery,
            _ => CommandTypeMeta::QueryOnly,
        }
    }
    fn event(&self, device: &mut LogDev, _context: &mut Context, params: Parameters) -> Result<()> {
        self.run(device, params, None, false)
    }
    fn query(&self, device: &mut LogDev, _context: &mut Context, params: Parameters, response: ResponseUnit) -> Result<()> {
        self.run(device, params, Some(response), true)
    }
}

/// All the typed pulls a plan generator may choose from.
pub fn all_pull_kinds() -> Vec<PullAs> {
    let mut v = vec![
        PullAs::Raw,
        PullAs::DataI32,
        PullAs::DataF64,
        PullAs::DataBool,
        PullAs::DataBytes,
        PullAs::Enum,
        PullAs::NumericF32,
        PullAs::NumericU8,
        PullAs::Volt,
        PullAs::Seconds,
        PullAs::AmplitudeVolt,
        PullAs::DbPower,
        PullAs::Auto,
        PullAs::IterNumList,
        PullAs::IterChanList,
    ];
    for t in Target::ALL {
        v.push(PullAs::To(t));
    }
    v
}
