use std::path::PathBuf;

#[global_allocator]
static GLOBAL: vcheck::alloc_count::Counting = vcheck::alloc_count::Counting;

use vcheck::engine::{install_quiet_panic_hook, Engine, Tier};
use vcheck::props;

fn usage() -> ! {
    eprintln!("usage: vcheck run <Cxx> --tier quick|thorough [--seed N]\n       vcheck replay <file> [--strict]\n       vcheck list");
    std::process::exit(2)
}

fn root() -> PathBuf {
    std::env::var("VERIF_ROOT").map(PathBuf::from).unwrap_or_else(|_| PathBuf::from("/verif"))
}

fn main() {
    let args: Vec<String> = std::env::args().collect();
    if args.len() < 2 {
        usage();
    }
    install_quiet_panic_hook();
    let all = props::all();
    match args[1].as_str() {
        "list" => {
            for p in &all {
                println!("{}", p.id);
            }
        }
        "run" => {
            let id = args.get(2).cloned().unwrap_or_else(|| usage());
            let mut tier = match std::env::var("VERIF_TIER").as_deref() {
                Ok("thorough") => Tier::Thorough,
                _ => Tier::Quick,
            };
            let mut seed: u64 = std::env::var("VERIF_SEED").ok().and_then(|s| s.trim().parse().ok()).unwrap_or(1);
            let mut i = 3;
            while i < args.len() {
                match args[i].as_str() {
                    "--tier" => {
                        tier = match args.get(i + 1).map(|s| s.as_str()) {
                            Some("quick") => Tier::Quick,
                            Some("thorough") => Tier::Thorough,
                            _ => usage(),
                        };
                        i += 2;
                    }
                    "--seed" => {
                        seed = args.get(i + 1).and_then(|s| s.parse().ok()).unwrap_or_else(|| usage());
                        i += 2;
                    }
                    _ => usage(),
                }
            }
            let Some(meta) = all.iter().find(|p| p.id == id) else {
                eprintln!("unknown property {id}");
                std::process::exit(2);
            };
            let engine = Engine::new(meta.id, tier, seed, root());
            (meta.run)(&engine);
            std::process::exit(engine.finish(meta));
        }
        "replay" => {
            let path = args.get(2).cloned().unwrap_or_else(|| usage());
            let text = std::fs::read_to_string(&path).unwrap_or_else(|e| {
                eprintln!("cannot read {path}: {e}");
                std::process::exit(2)
            });
            let doc: serde_json::Value = serde_json::from_str(&text).unwrap_or_else(|e| {
                eprintln!("cannot parse {path}: {e}");
                std::process::exit(2)
            });
            let id = doc["property"].as_str().unwrap_or("").to_string();
            let campaign = doc["campaign"].as_str().unwrap_or("").to_string();
            let Some(meta) = all.iter().find(|p| p.id == id) else {
                eprintln!("unknown property {id}");
                std::process::exit(2);
            };
            let mut engine = Engine::new(meta.id, Tier::Quick, 0, root());
            engine.replay_only = true;
            (meta.run)(&engine);
            match engine.replay(&campaign, &doc["case"]) {
                Ok(Ok(())) => {
                    println!("REPLAY-PASS property={id} campaign={campaign}: the recorded case satisfies the property on this tree ({})",
                        if cfg!(debug_assertions) { "checked profile" } else if vcheck::engine::MIN_CONFIG { "release profile, third library configuration: no alloc, no unit features, arrayvec + compact" } else if vcheck::engine::ALT_CONFIG { "release profile, second library configuration: no std, lexical-core compact" } else { "release profile" });
                    std::process::exit(0);
                }
                Ok(Err(f)) => {
                    println!("VIOLATION property={id} replay={path}");
                    println!("  campaign={campaign} signature={} : {}", f.signature, f.message);
                    std::process::exit(1);
                }
                Err(e) => {
                    eprintln!("replay error: {e}");
                    std::process::exit(2);
                }
            }
        }
        _ => usage(),
    }
}
