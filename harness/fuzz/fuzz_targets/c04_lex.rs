#![no_main]
// C04: library tokens versus the verdict of the independent 488.2 recogniser.
use libfuzzer_sys::fuzz_target;
use vcheck::bytes::B;
use vcheck::engine::Obs;
use vcheck::props::c04::{check, Case};

fuzz_target!(|data: &[u8]| {
    let obs = Obs::new();
    if let Err(f) = check(&Case::Bytes { bytes: B(data.to_vec()) }, &obs) {
        panic!("C04 {}: {}", f.signature, f.message);
    }
});
