#![no_main]
// C01: ChannelList / NumericList iteration and every spec conversion on raw bytes.
use libfuzzer_sys::fuzz_target;
use vcheck::bytes::B;
use vcheck::engine::Obs;
use vcheck::props::c01::{check, Case};

fuzz_target!(|data: &[u8]| {
    let obs = Obs::new();
    if let Err(f) = check(&Case::List { bytes: B(data.to_vec()) }, &obs) {
        panic!("C01 {}: {}", f.signature, f.message);
    }
});
