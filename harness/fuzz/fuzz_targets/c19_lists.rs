#![no_main]
// C19: list iteration versus the reference list recogniser (first byte picks the list kind).
use libfuzzer_sys::fuzz_target;
use vcheck::bytes::B;
use vcheck::engine::Obs;
use vcheck::props::c19::{check, Case};

fuzz_target!(|data: &[u8]| {
    let Some((k, rest)) = data.split_first() else { return };
    let obs = Obs::new();
    let case = if k & 1 == 1 {
        let mut t = vec![b'@'];
        t.extend_from_slice(rest);
        Case { channel: true, text: B(t) }
    } else {
        Case { channel: false, text: B(rest.to_vec()) }
    };
    if let Err(f) = check(&case, &obs) {
        panic!("C19 {}: {}", f.signature, f.message);
    }
});
