#![no_main]
// C08: decimal literal text (first byte selects the target type) against the
// exact-arithmetic reference.
use libfuzzer_sys::fuzz_target;
use vcheck::engine::Obs;
use vcheck::props::c08::{check, decode_text};

fuzz_target!(|data: &[u8]| {
    if let Some(case) = decode_text(data) {
        let obs = Obs::new();
        if let Err(f) = check(&case, &obs) {
            panic!("C08 {}: {}", f.signature, f.message);
        }
    }
});
