#![no_main]
// C05 / C02 / C06: whole-message differential from bytes (recogniser + path
// resolver as the oracle). The first byte selects the tree.
use libfuzzer_sys::fuzz_target;
use vcheck::bytes::B;
use vcheck::engine::Obs;
use vcheck::props::execdiff::{check, Case};

fuzz_target!(|data: &[u8]| {
    if data.is_empty() {
        return;
    }
    let obs = Obs::new();
    let case = if data[0] & 1 == 1 { Case::Class { bytes: B(data[1..].to_vec()) } } else { Case::Fix { bytes: B(data[1..].to_vec()) } };
    if let Err(f) = check(&case, &obs) {
        panic!("C05 {}: {}", f.signature, f.message);
    }
});
