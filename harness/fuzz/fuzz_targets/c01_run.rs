#![no_main]
// C01: any byte string, executed against the class tree with the convert-everything
// handler and fed to the bare lexers, is processed totally (same oracle as the harness).
use libfuzzer_sys::fuzz_target;
use vcheck::bytes::B;
use vcheck::engine::Obs;
use vcheck::props::c01::{check, Case};

fuzz_target!(|data: &[u8]| {
    let obs = Obs::new();
    if let Err(f) = check(&Case::Class { bytes: B(data.to_vec()) }, &obs) {
        panic!("C01 {}: {}", f.signature, f.message);
    }
    if let Err(f) = check(&Case::Fixed { bytes: B(data.to_vec()), plans: vec![] }, &obs) {
        panic!("C01 {}: {}", f.signature, f.message);
    }
});
