use scpi::parser::tokenizer::Token;
fn main() {
    for lit in ["255", "256", "299", "300", "999", "1000", "0999", "00999"] {
        println!("u8 {lit}: {:?}", u8::try_from(Token::DecimalNumericProgramData(lit.as_bytes())));
    }
    for lit in ["127", "128", "-128", "-129", "199", "-999", "999"] {
        println!("i8 {lit}: {:?}", i8::try_from(Token::DecimalNumericProgramData(lit.as_bytes())));
    }
    for lit in ["65535", "65536", "99999", "100000"] {
        println!("u16 {lit}: {:?}", u16::try_from(Token::DecimalNumericProgramData(lit.as_bytes())));
    }
    for lit in ["32768", "99999", "-99999","-32769"] {
        println!("i16 {lit}: {:?}", i16::try_from(Token::DecimalNumericProgramData(lit.as_bytes())));
    }
    for lit in ["4294967296", "9999999999", "4294967295"] {
        println!("u32 {lit}: {:?}", u32::try_from(Token::DecimalNumericProgramData(lit.as_bytes())));
    }
    for lit in ["18446744073709551616", "99999999999999999999", "18446744073709551615"] {
        println!("u64 {lit}: {:?}", u64::try_from(Token::DecimalNumericProgramData(lit.as_bytes())));
    }
    for lit in ["9223372036854775808", "-9223372036854775809", "9999999999999999999"] {
        println!("i64 {lit}: {:?}", i64::try_from(Token::DecimalNumericProgramData(lit.as_bytes())));
    }
}
