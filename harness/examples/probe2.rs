fn main() {
    // lexical-core is a dependency of scpi; reach it through a tiny re-export? not exported -> use scpi tokens only
    use scpi::parser::tokenizer::Token;
    let lits = ["356","355","511","512","611","612","767","868"];
    for l in lits { println!("u8 {l}: {:?}", u8::try_from(Token::DecimalNumericProgramData(l.as_bytes())).map_err(|e| e.get_code())); }
    for l in ["28446744073709551616","18446744073709551616","28446744073709551615"] { println!("u64 {l}: {:?}", u64::try_from(Token::DecimalNumericProgramData(l.as_bytes())).map_err(|e| e.get_code())); }
    for l in ["384","512","639","640","-640", "-384","-512"] { println!("i8 {l}: {:?}", i8::try_from(Token::DecimalNumericProgramData(l.as_bytes())).map_err(|e| e.get_code())); }
    for l in ["19223372036854775808","-19223372036854775808", "18446744073709551616", "-18446744073709551616"] { println!("i64 {l}: {:?}", i64::try_from(Token::DecimalNumericProgramData(l.as_bytes())).map_err(|e| e.get_code())); }
}
